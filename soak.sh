#!/bin/bash
# soak: thorough tier of every claimed property with a non-default seed; prints one summary line each
SEED=${1:-424242}
for p in C01 C02 C03 C04 C05 C06 C07 C08 C09 C12 C13 C14 C15 C16 C17 C18 C19; do
  VERIF_SEED=$SEED /venv/bin/python simcheck.py --property $p --tier thorough --no-evidence 2>&1 | grep -v "^warning\|^slowest\|^KNOWN" | tail -4
done
