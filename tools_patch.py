"""Tiny helper: exact-substring replacement that preserves CRLF line endings."""
import sys


def patch(path, old, new, count=1):
    with open(path, newline="") as f:
        s = f.read()
    crlf = "\r\n" in s
    if crlf:
        old = old.replace("\r\n", "\n").replace("\n", "\r\n")
        new = new.replace("\r\n", "\n").replace("\n", "\r\n")
    assert s.count(old) == count, (path, s.count(old), old[:80])
    s = s.replace(old, new)
    with open(path, "w", newline="") as f:
        f.write(s)
