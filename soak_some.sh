#!/bin/bash
# partial soak: thorough tier of the listed properties with a non-default seed
SEED=${1:-1234}; shift
for p in "$@"; do
  VERIF_SEED=$SEED /venv/bin/python simcheck.py --property $p --tier thorough --no-evidence 2>&1 | grep -v "^warning\|^slowest\|^KNOWN" | tail -4
done
