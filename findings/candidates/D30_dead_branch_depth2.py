from sysloss.system import System
from sysloss.components import *
def t(name, build):
    try:
        s = build(); df = s.solve(); print(name, "ok")
    except Exception as e:
        print(name, "RAISED", type(e).__name__, e)
def a():
    s = System("x", Source("S", vo=0.0)); s.add_comp("S", comp=LinReg("L", vo=3.3)); s.add_comp("L", comp=ILoad("I", ii=12.0)); return s
def b():
    s = System("x", Source("S", vo=0.0)); s.add_comp("S", comp=LinReg("L", vo=3.3)); s.add_comp("L", comp=Rectifier("R", vdrop=0.0, rs=1.0)); s.add_comp("R", comp=ILoad("I", ii=12.0)); return s
def c():
    s = System("x", Source("S", vo=0.0)); s.add_comp("S", comp=PSwitch("L", rs=1.0)); s.add_comp("L", comp=ILoad("I", ii=12.0)); return s
def d():
    s = System("x", Source("S", vo=5.0)); s.add_comp("S", comp=LinReg("L", vo=3.3)); s.add_comp("L", comp=Rectifier("R", vdrop=0.0, rs=1.0)); s.add_comp("R", comp=ILoad("I", ii=12.0))
    s.set_sys_phases({"a":1,"b":2}); s.set_comp_phases("L",["a"]); s.set_comp_phases("I",{"a":0.01,"b":12.0}); return s
def e():
    s = System("x", Source("S", vo=5.0)); s.add_comp("S", comp=PSwitch("P", rs=0.1)); s.add_comp("P", comp=LinReg("L", vo=3.3)); s.add_comp("L", comp=PSwitch("R", rs=1.0)); s.add_comp("R", comp=ILoad("I", ii=12.0))
    s.set_sys_phases({"a":1,"b":2}); s.set_comp_phases("P",["a"]); s.set_comp_phases("I",{"a":0.01,"b":12.0}); return s
for n,f in [("a",a),("b",b),("c",c),("d",d),("e",e)]: t(n,f)
