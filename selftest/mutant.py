#!/venv/bin/python
"""Evaluate one seeded change (mutant) against the checks.

  selftest/mutant.py --id C08-A --patch P.diff --demo demo.py --props C08[,C05] [--runs N] [--keep DIR]

Steps: scratch worktree of /repo HEAD (outside /repo and /verif) + patch;
pinned test suite must pass there; demo must fail there and pass on /repo;
then each listed check runs with SYSLOSS_SRC pointing at the scratch tree
(quick tier, no evidence written).  The scratch tree is removed afterwards.
"""
import argparse
import json
import os
import shutil
import subprocess
import sys
import tempfile
import time

VERIF = os.path.dirname(os.path.dirname(os.path.abspath(__file__)))
PY = "/venv/bin/python"


def sh(cmd, **kw):
    return subprocess.run(cmd, capture_output=True, text=True, **kw)


def main():
    ap = argparse.ArgumentParser()
    ap.add_argument("--id", required=True)
    ap.add_argument("--patch", required=True)
    ap.add_argument("--demo")
    ap.add_argument("--props", required=True)
    ap.add_argument("--runs", type=int, default=None)
    ap.add_argument("--tier", default="quick")
    ap.add_argument("--skip-tests", action="store_true")
    a = ap.parse_args()
    base = tempfile.mkdtemp(prefix="sens_")
    wt = os.path.join(base, "wt")
    res = {"id": a.id, "patch": a.patch, "checks": {}}
    try:
        r = sh(["git", "-C", "/repo", "worktree", "add", "--detach", wt, "HEAD"])
        assert r.returncode == 0, r.stderr
        r = sh(["git", "-C", wt, "apply", os.path.abspath(a.patch)])
        res["patch_applies"] = r.returncode == 0
        if r.returncode != 0:
            res["error"] = r.stderr[-400:]
            print(json.dumps(res, indent=1))
            return 2
        if not a.skip_tests:
            r = sh([PY, "-m", "pytest", "-q", "-p", "no:cacheprovider", "-x"], cwd=wt)
            res["tests_pass_with_patch"] = r.returncode == 0
            res["tests_tail"] = r.stdout.strip().split("\n")[-1]
        if a.demo:
            env = dict(os.environ, MPLBACKEND="Agg")
            d = tempfile.mkdtemp(dir=base)
            r1 = sh([PY, os.path.abspath(a.demo)], cwd=d, env=dict(env, PYTHONPATH=wt + "/src"))
            r0 = sh([PY, os.path.abspath(a.demo)], cwd=d, env=dict(env, PYTHONPATH="/repo/src"))
            res["demo_fails_with_patch"] = r1.returncode != 0
            res["demo_passes_without"] = r0.returncode == 0
            res["demo_msg"] = (r1.stderr or r1.stdout).strip().split("\n")[-1][:300]
        for prop in a.props.split(","):
            t0 = time.time()
            cmd = [PY, os.path.join(VERIF, "simcheck.py"), "--property", prop, "--tier", a.tier, "--no-evidence"]
            if a.runs:
                cmd += ["--runs", str(a.runs)]
            r = sh(cmd, env=dict(os.environ, SYSLOSS_SRC=wt), cwd=VERIF)
            lines = [l for l in r.stdout.split("\n") if l.startswith(("VIOLATION", "violation:", "detail:", "HARNESS"))]
            res["checks"][prop] = {"exit": r.returncode, "detected": r.returncode == 1 and any(l.startswith("VIOLATION") for l in lines), "lines": [l[:400] for l in lines[:4]], "wall_s": round(time.time() - t0, 1), "summary": r.stdout.strip().split("\n")[-1][:300]}
    finally:
        sh(["git", "-C", "/repo", "worktree", "remove", "--force", wt])
        shutil.rmtree(base, ignore_errors=True)
        sh(["git", "-C", "/repo", "worktree", "prune"])
    print(json.dumps(res, indent=1))
    return 0


if __name__ == "__main__":
    sys.exit(main())
