#!/venv/bin/python
"""Take a sub-agent's scratch worktree (source change left applied, demo.py,
NOTES.md) into seeded/<id>/ and evaluate it against the checks as they stand.

  selftest/ingest.py --id C04-8A --worktree /tmp/w8-C04 --prop C04 --round 8 --change "..." --needs "..."
"""
import argparse
import json
import os
import shutil
import subprocess
import sys

VERIF = os.path.dirname(os.path.dirname(os.path.abspath(__file__)))


def main():
    ap = argparse.ArgumentParser()
    ap.add_argument("--id", required=True)
    ap.add_argument("--worktree", required=True)
    ap.add_argument("--prop", required=True)
    ap.add_argument("--also", default="")
    ap.add_argument("--round", type=int, required=True)
    ap.add_argument("--change", required=True)
    ap.add_argument("--needs", required=True)
    a = ap.parse_args()
    d = os.path.join(VERIF, "seeded", a.id)
    os.makedirs(d, exist_ok=True)
    diff = subprocess.run(["git", "-C", a.worktree, "diff", "--", "src"], capture_output=True).stdout
    assert diff.strip(), "no source change in the worktree"
    open(os.path.join(d, "patch.diff"), "wb").write(diff)
    shutil.copy(os.path.join(a.worktree, "demo.py"), os.path.join(d, "demo.py"))
    if os.path.exists(os.path.join(a.worktree, "NOTES.md")):
        shutil.copy(os.path.join(a.worktree, "NOTES.md"), os.path.join(d, "NOTES_from_author.md"))
    props = a.prop + ("," + a.also if a.also else "")
    cmd = [sys.executable, os.path.join(VERIF, "selftest", "mutant.py"), "--id", a.id, "--patch", os.path.join(d, "patch.diff"), "--demo", os.path.join(d, "demo.py"), "--props", props]
    p = subprocess.run(cmd, capture_output=True, text=True)
    res = json.loads(p.stdout)
    checks = {k: {"detected": c["detected"], "exit": c["exit"], "first": c["lines"][:2], "wall_s": c["wall_s"]} for k, c in res.get("checks", {}).items()}
    det = [k for k, c in checks.items() if c["detected"]]
    meta = {
        "id": a.id, "round": a.round, "breaks_property": a.prop, "change": a.change, "needs_to_manifest": a.needs,
        "author": "independent sub-agent given only the property text, a scratch worktree and the list of earlier ideas to avoid; evaluated against the checks AS THEY STOOD before any strengthening",
        "confirmed": {"pinned_suite_passes_with_patch": res.get("tests_pass_with_patch"), "demo_fails_with_patch": res.get("demo_fails_with_patch"),
                      "demo_passes_on_unchanged_tree": res.get("demo_passes_without"), "demo_message": res.get("demo_msg")},
        "ran": "selftest/mutant.py --id %s --patch seeded/%s/patch.diff --demo seeded/%s/demo.py --props %s" % (a.id, a.id, a.id, props),
        "checks_on_arrival": checks, "checks": checks, "detected_by": det,
        "missed_by_the_checks_as_they_stood_when_it_arrived": not det,
    }
    json.dump(meta, open(os.path.join(d, "meta.json"), "w"), indent=1)
    print(json.dumps({"id": a.id, "confirmed": meta["confirmed"], "detected_by": det, "checks": checks}, indent=1))


if __name__ == "__main__":
    main()
