#!/venv/bin/python
"""Bring seeded/<id>/meta.json (detected_by, checks) in line with
seeded/RESULTS.json and add the rows missing from seeded/README.md."""
import json
import os
import re

VERIF = os.path.dirname(os.path.dirname(os.path.abspath(__file__)))
SD = os.path.join(VERIF, "seeded")


def main():
    res = json.load(open(os.path.join(SD, "RESULTS.json")))
    readme = open(os.path.join(SD, "README.md")).read().rstrip("\n").split("\n")
    have = set(re.match(r"^\| (\S+) \|", l).group(1) for l in readme if re.match(r"^\| C\d\d-", l))
    rows = [l for l in readme if re.match(r"^\| C\d\d-", l)]
    head = [l for l in readme if not re.match(r"^\| C\d\d-", l)]
    for mid in sorted(os.listdir(SD)):
        mp = os.path.join(SD, mid, "meta.json")
        if not os.path.exists(mp):
            continue
        meta = json.load(open(mp))
        r = res.get(mid)
        if r and meta.get("round", 0) >= 5:
            meta["detected_by"] = r["detected_by"]
            meta["checks"] = r["checks"]
            json.dump(meta, open(mp, "w"), indent=1)
        if mid in have:
            continue
        det = meta.get("detected_by") or []
        if det:
            c = (meta.get("checks") or {}).get(det[0], {})
            first = (c.get("first") or [""])[0]
            m = re.search(r"clause=(\S+)", first)
            cell = "%s (%s)" % (det[0], m.group(1) if m else "?")
        else:
            cell = "**not detected** (%s)" % (meta.get("note", "")[:150])
        if not meta.get("missed_by_the_checks_as_they_stood_when_it_arrived"):
            arr = "yes"
        else:
            arr = "no: " + (meta.get("strengthened_after_the_miss") or meta.get("strengthened_after_reading_the_authors_summary_before_first_evaluation") or "check strengthened after a miss (DESIGN 12.8)")
        esc = lambda t: str(t).replace("|", "\\|").replace("\n", " ")
        rows.append("| %s | %s | %s | %s | %s | %s |" % (mid, meta["round"], esc(meta["change"]), esc(meta["needs_to_manifest"])[:230], cell, esc(arr)))
    rows.sort(key=lambda l: l.split("|")[1].strip())
    open(os.path.join(SD, "README.md"), "w").write("\n".join(head + rows) + "\n")
    print(len(rows), "rows")


if __name__ == "__main__":
    main()
