#!/venv/bin/python
"""Re-evaluate every seeded change in /verif/seeded against the checks that are
expected to catch it and write seeded/RESULTS.json.

  selftest/sweep_seeded.py [--only C05-A,C17-B] [--jobs 2]
"""
import argparse
import json
import os
import subprocess
import sys
from concurrent.futures import ThreadPoolExecutor

VERIF = os.path.dirname(os.path.dirname(os.path.abspath(__file__)))


def one(mid):
    d = os.path.join(VERIF, "seeded", mid)
    meta = json.load(open(os.path.join(d, "meta.json")))
    props = meta.get("detected_by") or [meta["breaks_property"]]
    if meta["breaks_property"] not in props:
        props = [meta["breaks_property"]] + props
    p = subprocess.run([sys.executable, os.path.join(VERIF, "selftest", "mutant.py"), "--id", mid, "--patch", os.path.join(d, "patch.diff"),
                        "--demo", os.path.join(d, "demo.py"), "--props", ",".join(props)], capture_output=True, text=True)
    try:
        return mid, json.loads(p.stdout)
    except Exception:
        return mid, {"error": (p.stdout + p.stderr)[-500:]}


def main():
    ap = argparse.ArgumentParser()
    ap.add_argument("--only")
    ap.add_argument("--jobs", type=int, default=1)
    a = ap.parse_args()
    ids = sorted(x for x in os.listdir(os.path.join(VERIF, "seeded")) if os.path.isdir(os.path.join(VERIF, "seeded", x)))
    if a.only:
        ids = [i for i in ids if i in a.only.split(",")]
    out = {}
    rp = os.path.join(VERIF, "seeded", "RESULTS.json")
    if a.only and os.path.exists(rp):
        out = json.load(open(rp))  # a partial sweep updates the existing results
    with ThreadPoolExecutor(max_workers=a.jobs) as ex:
        for mid, res in ex.map(one, ids):
            det = [p for p, c in res.get("checks", {}).items() if c.get("detected")]
            out[mid] = {"detected_by": det, "tests_pass_with_patch": res.get("tests_pass_with_patch"), "demo_fails_with_patch": res.get("demo_fails_with_patch"),
                        "demo_passes_without": res.get("demo_passes_without"), "checks": {p: {"detected": c["detected"], "exit": c["exit"], "first": c["lines"][:2], "wall_s": c["wall_s"]} for p, c in res.get("checks", {}).items()}, "error": res.get("error")}
            print(mid, "detected by", det or "NONE", flush=True)
    with open(os.path.join(VERIF, "seeded", "RESULTS.json"), "w") as f:
        json.dump(out, f, indent=1)
    missed = sorted(m for m, r in out.items() if not r["detected_by"])
    print("seeded changes: %d, detected: %d, missed: %s" % (len(out), len(out) - len(missed), missed))
    return 0


if __name__ == "__main__":
    sys.exit(main())
