#!/venv/bin/python
"""Determinism self-test: the same (seed, property, run index) must give the
same event-log digest in fresh interpreters, with 1, 4 and 16 workers, and
under PYTHONHASHSEED 0, 1 and a large value.

  selftest/determinism.py [--props C01,C15] [--runs 48] [--seed N]
"""
import argparse
import os
import shutil
import sys
import tempfile

VERIF = os.path.dirname(os.path.dirname(os.path.abspath(__file__)))
sys.path.insert(0, VERIF)
from sim.runner import spawn_workers, collect  # noqa
from sim import props as P  # noqa


def batch(prop, seed, n, workers, hs, tmp):
    d = tempfile.mkdtemp(dir=tmp)
    procs = spawn_workers(prop, "quick", seed, n, workers, hs, 0, d, keep_samples=0)
    res, err = collect(procs, 900)
    return {r["idx"]: (r.get("digest"), r.get("harness")) for r in res}, err


def main():
    ap = argparse.ArgumentParser()
    ap.add_argument("--props", default=",".join(p for p in sorted(P.PROPS) if p != "C13"))
    ap.add_argument("--runs", type=int, default=48)
    ap.add_argument("--seed", type=int, default=777)
    a = ap.parse_args()
    tmp = tempfile.mkdtemp(prefix="determinism_")
    bad = 0
    try:
        for prop in a.props.split(","):
            ref, err = batch(prop, a.seed, a.runs, 16, 0, tmp)
            confs = [(16, 0), (4, 0), (1, 0), (16, 1), (16, 4242424242)]
            for wk, hs in confs:
                n = a.runs if wk > 1 else min(a.runs, 12)
                got, err2 = batch(prop, a.seed, n, wk, hs, tmp)
                diff = [i for i in got if got[i] != ref.get(i)]
                harness = [i for i in got if got[i][1]]
                print("%s workers=%-2d hashseed=%-10d runs=%d  differing=%s harness=%s %s" % (prop, wk, hs, len(got), diff[:5], harness[:3], (err + err2)[:1]))
                bad += len(diff)
    finally:
        shutil.rmtree(tmp, ignore_errors=True)
    print("DETERMINISM", "OK" if bad == 0 else "FAILED: %d differing runs" % bad)
    return 1 if bad else 0


if __name__ == "__main__":
    sys.exit(main())
