#!/venv/bin/python
"""Entry point of the sysloss session simulator.

  simcheck.py --property C15 --tier quick|thorough      run a check
  simcheck.py --property C15 --replay replays/x.json    replay one file
  simcheck.py --worker ...                              (internal)

Exit 0: property held on everything explored.  Exit 1: a line
`VIOLATION property=<id> replay=<path>` was printed.  Exit 2: harness error
(never reported as a violation, never exit 0).
"""
import argparse
import json
import os
import re
import shutil
import sys
import tempfile
import time
from collections import Counter

VERIF = os.path.dirname(os.path.abspath(__file__))
sys.path.insert(0, VERIF)

DEFAULT_SEED = 20261001

# runs, budget (s) per tier; sessions are ~0.3-1 s each on one core
TIERS = {
    "quick": {"runs": 1200, "budget": 50, "hard": 240, "workers": 16},
    "thorough": {"runs": 16000, "budget": 540, "hard": 1500, "workers": 16},
}
HASH_CLASSES = {"quick": [0], "thorough": [0, 1, 7919]}

RULES = {}
LEVEL = {}


def reexec_with_hashseed(hs):
    if os.environ.get("PYTHONHASHSEED") != str(hs):
        env = dict(os.environ)
        env["PYTHONHASHSEED"] = str(hs)
        env["PYTHONDONTWRITEBYTECODE"] = "1"
        env["MPLBACKEND"] = "Agg"
        os.execve(sys.executable, [sys.executable] + sys.argv, env)


def load_known():
    p = os.path.join(VERIF, "KNOWN_FINDINGS.json")
    if not os.path.exists(p):
        return []
    with open(p) as f:
        return json.load(f).get("findings", [])


def match_known(known, prop, v):
    """An open known finding suppresses only violations whose clause AND
    input signature match one of its recorded patterns."""
    for k in known:
        if k.get("status") != "open":
            continue
        for m in k.get("match", []):
            if m["property"] != prop or m["clause"] != v["clause"]:
                continue
            if m.get("sig") and m["sig"] != v.get("sig", ""):
                continue
            if m.get("detail_regex") and not re.search(m["detail_regex"], v["detail"]):
                continue
            return k
    return None


def run_replay(prop, path):
    from sim import specials  # noqa
    from sim.runner import execute

    with open(path) as f:
        rep = json.load(f)
    pre = rep.get("prelude")
    if pre:
        # state shared between System objects of one interpreter: the sessions
        # that ran before in the same worker are part of the schedule
        for i in pre["indices"]:
            execute(prop, seed=pre["seed"], idx=i, tier=pre["tier"])
    res = execute(prop, ops=rep["ops"], cfg=rep.get("cfg"), enabled=set(rep.get("enabled", [prop])))
    if res["harness"]:
        print("HARNESS during replay:", res["harness"])
        return 2
    want = (rep["property"], rep["clause"])
    for v in res["violations"]:
        if (v["prop"], v["clause"]) == want:
            same_step = v["step"] == rep.get("step")
            print("REPRODUCED property=%s clause=%s step=%s%s" % (v["prop"], v["clause"], v["step"], "" if same_step else " (recorded step %s)" % rep.get("step")))
            print("detail:", v["detail"])
            print("VIOLATION property=%s replay=%s" % (prop, path))
            return 1
    print("NOT REPRODUCED: expected %s, got %s" % (want, [(v["prop"], v["clause"]) for v in res["violations"]]))
    return 0


def main():
    ap = argparse.ArgumentParser()
    ap.add_argument("--property", required=True)
    ap.add_argument("--tier", default=os.environ.get("VERIF_TIER", "quick"))
    ap.add_argument("--seed", type=int, default=None)
    ap.add_argument("--replay")
    ap.add_argument("--worker", action="store_true")
    ap.add_argument("--indices", default="0:1:1")
    ap.add_argument("--out")
    ap.add_argument("--budget", type=float, default=0)
    ap.add_argument("--keep-samples", type=int, default=3)
    ap.add_argument("--runs", type=int, default=None)
    ap.add_argument("--workers", type=int, default=None)
    ap.add_argument("--no-evidence", action="store_true")
    ap.add_argument("--no-minimise", action="store_true")
    args = ap.parse_args()
    if args.seed is None:
        args.seed = int(os.environ.get("VERIF_SEED", DEFAULT_SEED))
    prop = args.property

    if args.worker:
        from sim.runner import worker_main

        args.indices = tuple(int(x) for x in args.indices.split(":"))
        worker_main(args)
        return 0

    if args.replay:
        hs = 0
        try:
            with open(args.replay) as f:
                hs = json.load(f).get("hash_seed", 0)
        except Exception:
            pass
        reexec_with_hashseed(hs)
        if prop == "C13":
            from sim import c13

            return c13.replay(args.replay)
        return run_replay(prop, args.replay)

    reexec_with_hashseed(0)
    from sim import props

    if prop not in props.PROPS:
        print("unknown or not-applicable property", prop)
        return 2
    if prop == "C13":
        from sim import c13

        return c13.main(args)
    return run_check(args)


def run_check(args):
    from sim import props
    from sim.runner import spawn_workers, collect, execute, digest
    from sim import specials  # noqa
    from sim.shrink import minimise

    prop, tier = args.property, args.tier
    T = dict(TIERS[tier])
    T.update(props.PROPS[prop].get(tier, {}))
    n_runs = args.runs or T["runs"]
    workers = args.workers or min(T["workers"], os.cpu_count() or 1)
    t0 = time.time()
    tmpdir = tempfile.mkdtemp(prefix="simcheck_", dir=os.environ.get("TMPDIR", "/tmp"))
    results, errors = [], []
    try:
        classes = HASH_CLASSES[tier] if tier == "thorough" else ([0, 1] if prop in props.HASH_SENSITIVE else [0])
        procs = []
        per = n_runs // len(classes)
        start = 0
        for hs in classes:
            wk = max(1, workers // len(classes))
            procs += [(p, o, hs) for p, o in spawn_workers(prop, tier, args.seed, per, wk, hs, T["budget"], tmpdir, args.keep_samples, start=start)]
            start += per
        res, errors = collect([(p, o) for p, o, _ in procs], T["hard"])
        results = res
    finally:
        shutil.rmtree(tmpdir, ignore_errors=True)

    known = load_known()
    harness = [r for r in results if r.get("harness")]
    viol_runs = []
    other = Counter()
    known_hits = {}
    for r in results:
        for v in r["violations"]:
            if v["prop"] == prop and "(not enabled)" not in v["clause"]:
                k = match_known(known, prop, v)
                if k:
                    known_hits.setdefault(k["id"], (k, r, v))
                else:
                    viol_runs.append((r, v))
            else:
                other[v["prop"]] += 1
    rc = 0
    replay_path = None
    for kid, (k, r, v) in sorted(known_hits.items()):
        print("KNOWN-FINDING: property=%s %s" % (prop, k["what"]))
    if viol_runs:
        r, v = viol_runs[0]
        ops = r["ops"]
        sig = (v["prop"], v["clause"])
        enabled = None

        def run(o):
            return execute(prop, ops=o, cfg=r["cfg"])

        used = 0
        if not args.no_minimise:
            try:
                mops, used = minimise(run, ops, sig, budget=250 if tier == "quick" else 600)
            except Exception as e:
                print("minimiser failed (%s); keeping the recorded session" % e)
                mops = ops
        else:
            mops = ops
        rr = run(mops)
        mv = [x for x in rr["violations"] if (x["prop"], x["clause"]) == sig]
        if not mv:
            mops = ops
            rr = run(mops)
            mv = [x for x in rr["violations"] if (x["prop"], x["clause"]) == sig]
        os.makedirs(os.path.join(VERIF, "replays"), exist_ok=True)
        replay_path = os.path.join(VERIF, "replays", "%s-%d-%d.json" % (prop, args.seed, r["idx"]))
        rep = {
            "property": prop, "clause": v["clause"], "seed": args.seed, "run": r["idx"], "hash_seed": int((r.get("cfg") or {}).get("hash_class", 0)),
            "cfg": r["cfg"], "ops": mops, "step": mv[0]["step"] if mv else v["step"],
            "detail": mv[0]["detail"] if mv else v["detail"], "original_ops": len(ops), "minimise_executions": used,
            "digest": rr.get("digest"),
        }
        with open(replay_path, "w") as f:
            json.dump(rep, f, indent=1, default=str)
        # the replay must reproduce in a fresh interpreter
        import subprocess

        p = subprocess.run([sys.executable, os.path.join(VERIF, "simcheck.py"), "--property", prop, "--replay", replay_path], capture_output=True, text=True, timeout=600)
        if not (p.returncode == 1 and "REPRODUCED" in p.stdout):
            # not reproducible on its own: was it prepared by the sessions that ran
            # before it in the same interpreter (state shared between Systems)?
            hc = int((r.get("cfg") or {}).get("hash_class", 0))
            same = sorted(x["idx"] for x in results if int((x.get("cfg") or {}).get("hash_class", 0)) == hc and x["idx"] < r["idx"])
            mine = [i for i in same if (r["idx"] - i) % max(1, workers // max(1, len(classes))) == 0]
            # first the whole recorded session on its own (the minimiser ran in
            # this interpreter, whose shared state the fresh one does not have),
            # then with growing preludes
            for k in (0, 1, 3, 10, len(mine)):
                if k and not mine:
                    break
                rep["ops"] = ops
                rep["step"] = v["step"]
                rep["detail"] = v["detail"]
                if k:
                    rep["prelude"] = {"seed": args.seed, "tier": tier, "indices": mine[-k:]}
                    rep["note"] = "reproduces only after the listed earlier sessions ran in the same interpreter: some state is shared between System objects"
                else:
                    rep["note"] = "not minimised: the shortened session reproduced only in the interpreter that had run the minimiser (state shared between System objects)"
                with open(replay_path, "w") as f:
                    json.dump(rep, f, indent=1, default=str)
                p = subprocess.run([sys.executable, os.path.join(VERIF, "simcheck.py"), "--property", prop, "--replay", replay_path], capture_output=True, text=True, timeout=900)
                if p.returncode == 1 and "REPRODUCED" in p.stdout:
                    mops = ops
                    break
        if p.returncode == 1 and "REPRODUCED" in p.stdout:
            print("violation: clause=%s run=%d step=%s ops=%d (from %d)" % (v["clause"], r["idx"], rep["step"], len(mops), len(ops)))
            print("detail:", rep["detail"])
            print("VIOLATION property=%s replay=%s" % (prop, replay_path))
            rc = 1
        else:
            print("HARNESS: violation did not reproduce in a fresh interpreter:\n" + p.stdout[-600:] + p.stderr[-600:])
            rc = 2
    # determinism re-check: a sample of the sessions is executed once more in
    # this (different) interpreter and must give the same event-log digest
    recheck = {"sessions": 0, "differing": []}
    if rc == 0 and results:
        ok0 = [r for r in results if not r.get("harness") and (r.get("cfg") or {}).get("hash_class", 0) == 0]
        step = max(1, len(ok0) // (8 if tier == "quick" else 40))
        for r in ok0[::step][: (8 if tier == "quick" else 40)]:
            r2 = execute(prop, seed=args.seed, idx=r["idx"], tier=tier)
            recheck["sessions"] += 1
            if r2.get("digest") != r.get("digest"):
                recheck["differing"].append(r["idx"])
        if recheck["differing"]:
            print("HARNESS: sessions %s are not deterministic (digest differs on re-execution)" % recheck["differing"][:5])
            rc = 2
    args._recheck = recheck
    if harness and rc == 0:
        print("HARNESS errors in %d runs; first: run %s: %s" % (len(harness), harness[0]["idx"], harness[0]["harness"][-1200:]))
        rc = 2
    if errors and rc == 0:
        print("WORKER errors:", errors[:3])
        if not results:
            rc = 2
    if not results and rc == 0:
        print("HARNESS: no run completed")
        rc = 2
    if not args.no_evidence:
        write_evidence(args, prop, tier, results, viol_runs, known_hits, other, harness, errors, time.time() - t0, n_runs)
    wall = time.time() - t0
    slow = sorted(((r.get("wall", 0), r["idx"]) for r in results), reverse=True)[:3]
    print("slowest sessions (s, run):", slow)
    print("%s %s: %d sessions, %d violations of %s, %d known-finding hits, %d other-property alarms, %d harness, %.1fs" % (
        prop, tier, len(results), len(viol_runs), prop, len(known_hits), sum(other.values()), len(harness), wall))
    return rc


def write_evidence(args, prop, tier, results, viol_runs, known_hits, other, harness, errors, wall, planned):
    from sim import props

    agg = Counter()
    faults = Counter()
    nt = set()
    inter = set()
    shapes = set()
    steps = 0
    for r in results:
        for k, v in (r.get("stats") or {}).items():
            agg[k] += v
        for k, v in (r.get("faults") or {}).items():
            faults[k] += v
        nt.update(r.get("nontrivial") or [])
        if r.get("interleave"):
            inter.add(r["interleave"])
        if r.get("shape"):
            shapes.add(r["shape"])
        steps += r.get("steps") or 0
    for k, v in agg.items():
        if k.startswith("fault_fired:"):
            faults[k[len("fault_fired:"):]] += v
    samples = []
    for r in results:
        if r.get("ops") and not r["violations"] and not r.get("harness"):
            samples.append({"run": r["idx"], "cfg_focus": (r.get("cfg") or {}).get("focus"), "ops": _compact_ops(r["ops"])})
        if len(samples) >= 2:
            break
    if not samples and results:
        samples = [{"run": results[0]["idx"], "outcomes": results[0].get("outcomes", [])[:40]}]
    P = props.PROPS[prop]
    agg["edits"] = agg.get("edit_ok", 0) + agg.get("edit_rej", 0)
    agg["analyses"] = sum(v for k, v in agg.items() if k.startswith("analysis:"))
    agg["c03_calls"] = sum(v for k, v in agg.items() if k.startswith("c03_outcome:"))
    cases = agg.get(props.CASE_COUNTER.get(prop, ""), 0) or len(results)
    probes = {k: (agg.get(k, 0) or faults.get(k, 0)) for k in P.get("probes", [])}
    stuck = [k for k, v in probes.items() if v == 0]
    ev = {
        "property_id": prop,
        "tier": tier,
        "seed": args.seed,
        "level": P["level"],
        "coverage": {
            "evaluations": int(cases),
            "evaluations_unit": props.CASE_COUNTER.get(prop, "sessions"),
            "sessions": len(results),
            "distinct_nontrivial": len(nt),
            "rule": P["rule"],
            "samples": samples,
            "planned_runs": planned,
            "operations_executed": steps,
            "sessions_per_hour": int(len(results) / max(wall, 1e-9) * 3600),
            "seeds_per_hour": int(len(results) / max(wall, 1e-9) * 3600),
            "simulated_time": {
                "solver_sweeps": agg.get("sweeps", 0),
                "battery_model_seconds": agg.get("batt_sim_seconds", 0),
                "battery_steps": agg.get("batt_steps", 0),
            },
            "faults_fired": dict(sorted(faults.items())),
            "reject_classes_fired": {k[len("reject_class:"):]: v for k, v in sorted(agg.items()) if k.startswith("reject_class:")},
            "rare_condition_probes": probes,
            "probes_stuck_at_zero": stuck,
            "distinct_states_shape_hashes": len(shapes),
            "distinct_interleavings": len(inter),
            "counters": {k: v for k, v in sorted(agg.items()) if not k.startswith("reject_class:")},
            "other_property_alarms_seen": dict(other),
            "known_finding_hits": sorted(known_hits),
            "harness_errors": len(harness),
            "determinism_recheck": getattr(args, "_recheck", None),
            "worker_errors": errors[:3],
            "real_components": ["sysloss (all of it, from /repo/src working tree)", "rustworkx", "numpy", "scipy", "pandas", "json", "toml", "pydot graph building and serialisation", "tqdm", "rich", "matplotlib (Agg)"],
            "stubbed_components": ["disk (SimDisk behind sysloss.system.open / sysloss.components.open / pydot.core.open)", "clock (SimClock behind tqdm.std.time)", "battery model callbacks (SimPeer)", "graphviz dot subprocess (SimProc behind pydot.core.call_graphviz; real /usr/bin/dot on a sample for C19)", "console (rich print capture)"],
            "tolerances": P.get("tolerances", "twin comparisons 1e-9 rel + 1e-12 abs; law re-evaluation 20 x requested rtol x row scale + 4e-8"),
        },
        "assumptions": P.get("assumptions", []) + [
            "sampling, not enumeration: a clean batch is evidence, not proof",
            "numpy/scipy/pandas/rustworkx/CPython/json/toml/pydot serialiser are trusted",
        ],
        "wall_s": round(wall, 2),
        "violations": len(viol_runs),
    }
    os.makedirs(os.path.join(VERIF, "evidence"), exist_ok=True)
    with open(os.path.join(VERIF, "evidence", prop + ".json"), "w") as f:
        json.dump(_finite(ev), f, indent=1, default=str, allow_nan=False)
    if stuck:
        print("warning: rare-condition probes stuck at zero:", stuck)


def _finite(x):
    """Strict-JSON safe copy: non-finite floats become strings."""
    import math

    if isinstance(x, float) and not math.isfinite(x):
        return repr(x)
    if isinstance(x, dict):
        return {str(k): _finite(v) for k, v in x.items()}
    if isinstance(x, (list, tuple)):
        return [_finite(v) for v in x]
    return x


def _compact_ops(ops):
    out = []
    for op in ops[:60]:
        o = {k: v for k, v in op.items() if k != "comp"}
        if "comp" in op:
            o["comp"] = {"kind": op["comp"]["kind"], "name": op["comp"]["name"], "p": op["comp"]["p"], "lim": op["comp"]["lim"]}
        out.append(o)
    return out


if __name__ == "__main__":
    sys.exit(main())
