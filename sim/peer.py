"""SimPeer: scripted battery models behind batt_life()'s pfunc/dfunc callbacks,
with call recording and fault injection at the k-th invocation; and the
oracle over the recorded peer history (C18)."""
import copy
import math

from . import observe as O


class PeerFault(RuntimeError):
    pass


class PeerLimit(RuntimeError):
    pass


class Battery:
    """Deterministic battery model described by plain data.

    kind: 'cc' constant voltage coulomb counter; 'linear' voltage falls
    linearly with depth of discharge; 'stepped' piecewise-constant voltage;
    'imp' impedance grows with depth of discharge; 'early' already at/below
    cut-off or empty at the first probe."""

    def __init__(self, model, fault=None, limit=400, sweeps=None):
        self.sweeps = sweeps
        self.sweeps_seen = sweeps.fwd if sweeps is not None else 0
        self.m = model
        self.cap0 = model["cap"]
        self.cap = model["cap"]
        self.calls = 0
        self.log = []  # (kind, t, i, returned state)
        self.fault = fault
        self.limit = limit
        self.sim_seconds = 0.0

    def _state(self):
        m = self.m
        d = 1.0 - self.cap / self.cap0 if self.cap0 else 1.0
        d = min(max(d, 0.0), 1.5)
        k = m["kind"]
        v0, v1 = m["v0"], m["v1"]
        if k == "cc":
            v = v0
        elif k in ("linear", "imp", "early"):
            v = v0 - (v0 - v1) * d * m.get("slope", 1.0)
        elif k == "stepped":
            steps = m.get("steps", 4)
            v = v0 - (v0 - v1) * (math.floor(d * m.get("slope", 1.0) * steps) / steps)
        else:
            raise AssertionError(k)
        rs = m["rs0"] + (m.get("rs1", m["rs0"]) - m["rs0"]) * min(d * m.get("slope", 1.0), 1.0)
        return (self.cap, v, rs)

    def _enter(self, kind):
        self.calls += 1
        if self.calls > self.limit:
            raise PeerLimit("battery model gave up after %d calls" % self.limit)
        if self.sweeps is not None:
            used = self.sweeps.fwd - self.sweeps_seen
            self.sweeps_seen = self.sweeps.fwd
            if used > 3000:
                # the system has no steady state for this battery state: the
                # property does not speak about it, and it would take minutes
                raise PeerLimit("solver needed %d sweeps; battery model gives up" % used)
        f = self.fault
        if f and f["k"] == self.calls:
            self.fired = True
            if f.get("exc") == "KeyboardInterrupt":
                raise KeyboardInterrupt()
            if f.get("exc") == "SystemExit":
                raise SystemExit(3)
            raise PeerFault("injected failure at call %d (%s)" % (self.calls, kind))

    def _ret(self, st):
        if self.m.get("mutable_state"):
            if not hasattr(self, "_live"):
                self._live = [0.0, 0.0, 0.0]
                self.stats_mutable = True
            self._live[0], self._live[1], self._live[2] = st
            return self._live
        return st

    def probe(self):
        self._enter("probe")
        st = self._state()
        self.log.append(("probe", None, None, st))
        return self._ret(st)

    def deplete(self, t, i):
        self._enter("deplete")
        t, i = float(t), float(i)
        self.cap = self.cap - i * t / 3600.0
        self.sim_seconds += t if math.isfinite(t) else 0.0
        st = self._state()
        self.log.append(("deplete", t, i, st))
        return self._ret(st)


def run_batt_life(sess, sysobj, op, passed):
    """Invoke batt_life against a fresh scripted battery; returns a canonical
    (frame, peer log) pair.  The peer is kept on the session for the oracle."""
    bat = Battery(copy.deepcopy(op["model"]), fault=op.get("pfault"), limit=op.get("limit", 400), sweeps=sess.w.sweeps)
    sess.last_peer = bat
    kw = {}
    if op.get("tags"):
        tags = copy.deepcopy(op["tags"])
        passed.append(("tags", tags, copy.deepcopy(tags)))
        kw["tags"] = tags
    old = sess.w.clock.behaviour
    if op.get("clock"):
        sess.w.clock.behaviour = op["clock"]
    try:
        df = sysobj.batt_life(op["battery"], cutoff=op["cutoff"], pfunc=bat.probe, dfunc=bat.deplete, **kw)
    except KeyboardInterrupt:
        sess.stats["fault_fired:peer_keyboard_interrupt"] += 1
        raise PeerFault("KeyboardInterrupt")
    except SystemExit:
        sess.stats["fault_fired:peer_system_exit"] += 1
        raise PeerFault("SystemExit")
    finally:
        sess.w.clock.behaviour = old
        sess.stats["batt_steps"] += max(0, len(bat.log) - 1)
        sess.stats["batt_sim_seconds"] += int(bat.sim_seconds)
        if getattr(bat, "fired", False):
            sess.stats["fault_fired:peer_exception_at_k"] += 1
        if getattr(bat, "stats_mutable", False):
            sess.stats["peer_returns_one_mutable_list"] += 1
    cols, rows = O.frame_rows(df)
    return {"cols": cols, "rows": rows}


def check_batt_life(sess, op, res):
    """C18: the recorded peer history against the reference (from-scratch
    solve with the last returned battery state)."""
    if "C18" not in sess.enabled:
        return
    m = sess.model
    bat = getattr(sess, "last_peer", None)
    name = m.resolve(op["battery"])
    if name is None or m.kind(name) != "Source":
        if not (res[0] == "exc" and res[1] == "ValueError"):
            sess.fail("C18", "non-source-rejected", "batt_life(%r) -> %s" % (op["battery"], repr(res)[:200]))
        sess.stats["c18_non_source"] += 1
        return
    if op.get("pfault"):
        return  # judged by C17
    deps = [e for e in (bat.log if bat is not None else []) if e[0] == "deplete"]
    never = deps and all(e[2] == 0 for e in deps)
    if bat is not None and (never or any(not math.isfinite(e[1]) or not math.isfinite(e[2]) for e in deps)):
        # a battery that is never discharged: its capacity does not 'eventually
        # run out', the property does not speak about it
        sess.stats["c18_zero_current_skipped"] += 1
        return
    if res[0] != "ok" and not deps and not m.sys_phases:
        # the call stopped before the first depletion: a battery that delivers
        # no current at all has no 'time to draw a thousandth of its capacity'
        # (same reading as above); decided with a from-scratch solve
        fr0 = sess._guard(lambda: sess.build_fresh().solve())
        if fr0[0] == "ok":
            t0 = O.Table(fr0[1])
            row0 = t0.comp.get("", {}).get(name)
            if row0 is not None and row0.get("Iout (A)") == 0:
                sess.stats["c18_zero_current_skipped"] += 1
                return
    if res[0] != "ok":
        if res[1] == "PeerLimit":
            sess.stats["c18_peer_limit"] += 1
            return
        if res[1] in ("ValueError", "RuntimeError") and bat is not None and bat.log:
            # did the battery state make the system unsolvable?  Then no steady
            # state exists and the property does not speak; decided with a
            # from-scratch system carrying the last returned battery state
            from .spec import build as _build

            st = bat.log[-1][3]
            phs = list(m.sys_phases.keys()) or [""]
            ph = phs[(len(bat.log) - 1) % len(phs)]
            fr = sess.build_fresh()
            sp = copy.deepcopy(m.comps[name])
            sp["p"]["vo"], sp["p"]["rs"] = st[1], st[2]
            fr.change_comp(name, comp=_build(sp), group=m.groups[name], rail=m.rails[name])
            if m.phase_conf[name]:
                fr.set_comp_phases(name, copy.deepcopy(m.phase_conf[name]))
            rr = sess._guard(lambda: fr.solve(phase=ph) if ph else fr.solve())
            if rr[0] == "exc" and rr[1] in ("ValueError", "RuntimeError"):
                sess.stats["c18_unsolvable_state_skipped"] += 1
                return
        sess.fail("C18", "batt-life-succeeds", "batt_life raised %s(%s)" % (res[1], res[2]))
    log = bat.log
    if not log or log[0][0] != "probe" or any(e[0] == "probe" for e in log[1:]):
        sess.fail("C18", "probe-once-first", "peer calls: %s" % [e[0] for e in log][:8])
    phases = list(m.sys_phases.keys()) or [""]
    cutoff = op["cutoff"]
    # reference: a from-scratch system whose battery takes the last returned state
    fresh = sess.build_fresh()
    spec0 = copy.deepcopy(m.comps[name])
    from .spec import build

    state = log[0][3]
    exp_rows = [(0.0,) + tuple(state)]
    tsum = 0.0
    alive = state[0] > 0.0 and state[1] > cutoff
    n_dep = 0
    currents = set()
    for idx, e in enumerate(log[1:]):
        if not alive:
            sess.fail("C18", "stops-at-first-violating-state", "deplete call %d after state %r (cutoff %r)" % (idx + 1, state, cutoff))
        ph = phases[idx % len(phases)]
        _, t, i, st = e
        spec = copy.deepcopy(spec0)
        spec["p"]["vo"], spec["p"]["rs"] = state[1], state[2]
        fresh.change_comp(name, comp=build(spec), group=m.groups[name], rail=m.rails[name])
        if m.phase_conf[name]:
            fresh.set_comp_phases(name, copy.deepcopy(m.phase_conf[name]))
        df = fresh.solve(phase=ph) if ph else fresh.solve()
        tb = O.Table(df)
        iref = tb.comp[ph][name]["Iout (A)"]
        if abs(i - iref) > 2e-4 * max(abs(iref), abs(i)) + 1e-9:
            sess.fail("C18", "deplete-current-is-solved-current", "call %d phase %r: dfunc got I=%r, steady-state battery current for vo=%r rs=%r is %r" % (idx + 1, ph, i, state[1], state[2], iref))
        if ph:
            want_t = m.sys_phases[ph]
            if t != want_t:
                sess.fail("C18", "deplete-time-is-phase-duration", "call %d: t=%r, phase %r lasts %r" % (idx + 1, t, ph, want_t))
        else:
            want_t = bat.cap0 / i * 3.6 if i else float("inf")
            if not (abs(t - want_t) <= 1e-9 * abs(want_t)):
                sess.fail("C18", "deplete-time-is-one-thousandth", "call %d: t=%r want cap0/I*3.6=%r" % (idx + 1, t, want_t))
        tsum += t
        state = st
        currents.add(round(i, 9))
        n_dep += 1
        alive = state[0] > 0.0 and state[1] > cutoff
        if alive:
            exp_rows.append((tsum,) + tuple(state))
    if alive:
        sess.fail("C18", "runs-until-depleted", "batt_life returned while capacity %r > 0 and voltage %r > cutoff %r" % (state[0], state[1], cutoff))
    rows = res[1]["rows"]
    got = [(r["Time (s)"], r["Capacity (Ah)"], r["Voltage (V)"], r["Resistance (Ohm)"]) for r in rows]
    if len(got) != len(exp_rows):
        sess.fail("C18", "log-rows", "log has %d rows, expected %d (initial + states with capacity>0 and voltage>cutoff)" % (len(got), len(exp_rows)))
    for k, (g, w) in enumerate(zip(got, exp_rows)):
        for a, b in zip(g, w):
            if not (a == b or abs(a - b) <= 1e-9 * max(abs(a), abs(b))):
                sess.fail("C18", "log-values", "row %d: %r want %r" % (k, g, w))
        if k and not got[k][0] > got[k - 1][0]:
            sess.fail("C18", "time-strictly-increasing", "row %d time %r after %r" % (k, got[k][0], got[k - 1][0]))
    if op.get("tags"):
        for r in rows:
            for kk, vv in op["tags"].items():
                if r.get(kk) != vv:
                    sess.fail("C18", "tags-columns", "row %r lacks tag %r" % (r, kk))
    sess.stats["c18_logs_checked"] += 1
    if len(got) >= 3:
        sess.nontrivial.add(("batt", op["model"]["kind"], len(phases), m.sources().index(name), "cut" if state[1] <= cutoff else "cap", len(currents) > 1))
        sess.stats["c18_nontrivial"] += 1
