def run_batt_life(sess, sysobj, op, passed):
    return None
def check_batt_life(sess, op, res):
    pass
