"""Reference laws: the documented transfer law, power, loss of every component
kind, written once more from the docstrings and the wording of C01/C02/C04/C06.
No numpy, no sysloss imports.  Values that depend on a general 2-D table are
intervals (lo, hi): the documentation only promises 'within the corner values
of the enclosing cell' there."""
from .spec import eff_params, is_table, LOADS, LIST_PHASE_KINDS


# --------------------------------------------------------------------------
# tabulated parameters
# --------------------------------------------------------------------------
def _interp1(xs, fs, x):
    x = abs(x)
    xs = [abs(a) for a in xs]
    fs = [abs(a) for a in fs]
    if x <= xs[0]:
        return fs[0]
    if x >= xs[-1]:
        return fs[-1]
    for k in range(len(xs) - 1):
        if xs[k] <= x <= xs[k + 1]:
            t = (x - xs[k]) / (xs[k + 1] - xs[k])
            return fs[k] + t * (fs[k + 1] - fs[k])
    return fs[-1]


def rows_identical(tab, key):
    rows = tab[key]
    return all(list(r) == list(rows[0]) for r in rows)


def tab_eval(val, key, io, vi):
    """Evaluate a parameter (constant or table) at (io, vi) -> (lo, hi)."""
    if not is_table(val):
        v = abs(val)
        return (v, v)
    if len(val["vi"]) == 1 or rows_identical(val, key):
        v = _interp1(val["io"], val[key][0], io)
        return (v, v)
    # general 2-D table.  sysloss interpolates linearly on a triangulation of
    # the rectangular grid; every triangle lies inside one grid cell, so inside
    # a cell the value is one of the two planar interpolations given by the
    # cell's two diagonals ('linear between, within the corner values').  The
    # oracle accepts the interval spanned by those two (exact on grid lines).
    xs = [abs(a) for a in val["io"]]
    ys = [abs(a) for a in val["vi"]]
    order = sorted(range(len(ys)), key=lambda j: ys[j])
    ys_s = [ys[j] for j in order]
    x = min(max(abs(io), xs[0]), xs[-1])
    y = min(max(abs(vi), ys_s[0]), ys_s[-1])

    def cells(arr, q):
        ks = [k for k in range(len(arr) - 1) if arr[k] <= q <= arr[k + 1]]
        return ks or [0]

    lo, hi = None, None
    for j in cells(ys_s, y):
        for i in cells(xs, x):
            x0, x1 = xs[i], xs[min(i + 1, len(xs) - 1)]
            y0, y1 = ys_s[j], ys_s[min(j + 1, len(ys_s) - 1)]
            r0 = val[key][order[j]]
            r1 = val[key][order[min(j + 1, len(ys_s) - 1)]]
            f00, f10 = abs(r0[i]), abs(r0[min(i + 1, len(xs) - 1)])
            f01, f11 = abs(r1[i]), abs(r1[min(i + 1, len(xs) - 1)])
            u = (x - x0) / (x1 - x0) if x1 > x0 else 0.0
            v = (y - y0) / (y1 - y0) if y1 > y0 else 0.0
            # diagonal 00-11
            if u >= v:
                t1 = f00 + u * (f10 - f00) + v * (f11 - f10)
            else:
                t1 = f00 + v * (f01 - f00) + u * (f11 - f01)
            # diagonal 10-01
            if u + v <= 1.0:
                t2 = f00 + u * (f10 - f00) + v * (f01 - f00)
            else:
                t2 = f11 + (1.0 - u) * (f01 - f11) + (1.0 - v) * (f10 - f11)
            for t in (t1, t2):
                lo = t if lo is None else min(lo, t)
                hi = t if hi is None else max(hi, t)
    pad = 1e-9 * max(abs(lo), abs(hi))
    return (lo - pad, hi + pad)


def table_is_interval(val, key):
    return is_table(val) and len(val["vi"]) > 1 and not rows_identical(val, key)


# --------------------------------------------------------------------------
# interval helpers
# --------------------------------------------------------------------------
def pt(x):
    return (x, x)


def imul(a, k):
    lo, hi = a[0] * k, a[1] * k
    return (min(lo, hi), max(lo, hi))


def iadd(a, b):
    return (a[0] + b[0], a[1] + b[1])


def sgn(x):
    return (x > 0) - (x < 0)


ZERO = {"vout": pt(0.0), "iin": pt(0.0), "power": pt(0.0), "loss": pt(0.0), "diss": pt(0.0), "dead": True}


# --------------------------------------------------------------------------
# phase behaviour
# --------------------------------------------------------------------------
def is_active(kind, conf, phase):
    """Sources, converters, regulators, switches and muxes are active only in
    their listed phases; no configuration means always active."""
    if kind in LIST_PHASE_KINDS and conf:
        return phase in conf
    return True


def load_value(spec, conf, phase):
    """The value a load takes in a phase: configured value, else sleep value
    (PLoad pwrs, ILoad iis, RLoad keeps its resistance)."""
    p = eff_params(spec)
    k = spec["kind"]
    if k == "PLoad":
        if not conf:
            return p["pwr"]
        return abs(conf[phase]) if phase in conf else p["pwrs"]
    if k == "ILoad":
        if not conf:
            return p["ii"]
        return abs(conf[phase]) if phase in conf else p["iis"]
    if not conf or phase not in conf:
        return p["rs"]
    return abs(conf[phase])


# --------------------------------------------------------------------------
# the per-row law
# --------------------------------------------------------------------------
def row_law(spec, conf, phase, vin, iout, sel=0, iin_row=None, vout_row=None):
    """Expected Vout, Iin, Power, Loss (intervals) of one component row from
    its own (Vin, Iout).  `sel` = index of the selected mux input.  For a
    Source `vin` is ignored (its Vin cell is its nominal voltage).
    `iin_row` is the row's own Iin cell: the documented Power is |Vin| x Iin
    and the converter's loss is defined on the actual input power."""
    k = spec["kind"]
    p = eff_params(spec)
    a = abs(vin)
    io = abs(iout)

    if k == "Source":
        vo = p["vo"]
        if vo == 0.0 or not is_active(k, conf, phase):
            r = dict(ZERO)
            r["vin"] = pt(0.0)
            return r
        v = vo - sgn(vo) * p["rs"] * io
        return {
            "vin": pt(vo),
            "vout": pt(v),
            "iin": pt(io),
            "power": pt(abs(vo) * io),
            "loss": pt(p["rs"] * io * io),
            "diss": pt(p["rs"] * io * io),
            "dead": False,
        }

    if a == 0.0:
        return dict(ZERO)

    if k in LOADS:
        val = load_value(spec, conf, phase)
        if k == "PLoad":
            i = val / a
        elif k == "ILoad":
            i = val
        else:
            i = a / val
        cons = a * i
        if p["loss"]:
            return {"vout": pt(0.0), "iin": pt(i), "power": pt(0.0), "loss": pt(cons), "diss": pt(cons), "dead": False}
        return {"vout": pt(0.0), "iin": pt(i), "power": pt(cons), "loss": pt(0.0), "diss": pt(cons), "dead": False}

    if k in ("Converter", "LinReg", "PSwitch", "PMux") and not is_active(k, conf, phase):
        if k == "Converter" and p["vo"] == 0.0:
            return dict(ZERO)
        s = p["iis"]
        return {"vout": pt(0.0), "iin": pt(s), "power": pt(s * a), "loss": pt(s * a), "diss": pt(s * a), "dead": False, "sleep": True}

    if k == "RLoss":
        d = p["rs"] * io
        v = sgn(vin) * (a - d)
        return {"vout": pt(v), "iin": pt(io), "power": pt(a * io), "loss": pt(d * io), "diss": pt(d * io), "dead": False, "drop": pt(d)}

    if k == "VLoss":
        d = tab_eval(p["vdrop"], "vdrop", io, a)
        v = imul((a - d[1], a - d[0]), sgn(vin))
        return {"vout": v, "iin": pt(io), "power": pt(a * io), "loss": imul(d, io), "diss": imul(d, io), "dead": False, "drop": d}

    if k == "Converter":
        vo = p["vo"]
        if vo == 0.0:
            return dict(ZERO)
        e = tab_eval(p["eff"], "eff", io, a)
        if io == 0.0:
            ii = pt(p["iq"])
            loss = pt(p["iq"] * a)
        else:
            ii = (abs(vo) * io / (a * e[1]), abs(vo) * io / (a * e[0]))
            base = ii if iin_row is None else pt(abs(iin_row))
            loss = (base[0] * a * (1.0 - e[1]), base[1] * a * (1.0 - e[0]))
        return {"vout": pt(vo), "iin": ii, "power": imul(ii, a), "loss": loss, "diss": loss, "dead": False}

    if k == "LinReg":
        vo = p["vo"]
        m = min(abs(vo), max(a - p["vdrop"], 0.0))
        v = m if vo >= 0 else -m
        g = tab_eval(p["ig"], "ig", io, a)
        ii = (io + g[0], io + g[1])
        loss = imul(g, a)
        if io > 0.0:
            loss = iadd(loss, pt((a - m) * io))
        return {"vout": pt(v), "iin": ii, "power": imul(ii, a), "loss": loss, "diss": loss, "dead": False}

    if k in ("PSwitch", "PMux"):
        rs = p["rs"]
        if isinstance(rs, list):
            rs = rs[sel]
        d = rs * io
        v = sgn(vin) * (a - d)
        g = tab_eval(p["ig"], "ig", io, a)
        ii = (io + g[0], io + g[1])
        loss = imul(g, a)
        if io > 0.0:
            loss = iadd(loss, pt(d * io))
        return {"vout": pt(v), "iin": ii, "power": imul(ii, a), "loss": loss, "diss": loss, "dead": False, "drop": pt(d)}

    if k == "Rectifier":
        diode = (is_table(p["vdrop"])) or p["vdrop"] != 0.0
        if diode:
            d = imul(tab_eval(p["vdrop"], "vdrop", io, a), 2.0)
            v = (a - d[1], a - d[0])
            return {"vout": v, "iin": pt(io), "power": pt(a * io), "loss": imul(d, io), "diss": imul(d, io), "dead": False, "drop": d}
        rs = p["rs"]
        d = 2.0 * rs * io
        if io == 0.0:
            ii = pt(p["iq"])
            loss = pt(p["iq"] * a)
        else:
            g = tab_eval(p["ig"], "ig", io, a)
            ii = (io + g[0], io + g[1])
            loss = iadd(imul(g, a), pt(d * io))
        return {"vout": pt(a - d), "iin": ii, "power": imul(ii, a), "loss": loss, "diss": loss, "dead": False, "drop": pt(d)}

    raise AssertionError("unknown kind " + k)


def uses_interval(spec):
    p = spec["p"]
    for key in ("eff", "vdrop", "ig"):
        if key in p and table_is_interval(p[key], key):
            return True
    return False
