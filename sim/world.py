"""The simulated environment: every seam sysloss meets is a module global that
is rebound here.  Real code: all of sysloss, rustworkx, numpy/scipy/pandas,
json/toml, pydot graph building and serialisation, tqdm, rich.  Stubs: disk,
clock, battery model (peer.py), the `dot` binary, console."""
import errno
import io
import os
import sys
import warnings
from functools import partial


def _src_path():
    return os.environ.get("SYSLOSS_SRC", "/repo") + "/src"


def import_sysloss():
    """Import sysloss from the *current working tree* (or $SYSLOSS_SRC)."""
    p = _src_path()
    if p not in sys.path:
        sys.path.insert(0, p)
    os.environ.setdefault("MPLBACKEND", "Agg")
    import sysloss  # noqa
    import sysloss.system as S
    import sysloss.components as C
    import sysloss.diagram as D

    assert os.path.realpath(S.__file__).startswith(os.path.realpath(p)), (S.__file__, p)
    global PRISTINE_CONF
    if PRISTINE_CONF is None:
        import copy

        # the documented default diagram configuration, read once through the
        # public API before any session has run in this interpreter
        PRISTINE_CONF = copy.deepcopy(D.get_conf())
    return S, C, D


PRISTINE_CONF = None


# --------------------------------------------------------------------------
class DiskFault(Exception):
    pass


class _SimFile(io.StringIO):
    def __init__(self, disk, path, mode, initial=""):
        super().__init__(initial)
        self._disk, self._path, self._mode = disk, path, mode
        self._writes = 0
        if "a" in mode:
            self.seek(0, 2)

    def write(self, s):
        self._writes += 1
        f = self._disk.fault
        if f and f["kind"] == "write_fail" and self._writes >= f["n"]:
            # torn prefix stays on disk
            part = s[: len(s) // 2]
            super().write(part)
            self._disk.files[self._path] = self.getvalue()
            self._disk.fired("write_fail")
            raise OSError(errno.ENOSPC, "No space left on device (simulated)")
        return super().write(s)

    def close(self):
        if not self.closed and ("w" in self._mode or "a" in self._mode):
            self._disk.files[self._path] = self.getvalue()
        super().close()

    def __exit__(self, *a):
        self.close()
        return False


class _SimBinFile(io.BytesIO):
    def __init__(self, disk, path, mode, initial=b""):
        super().__init__(initial)
        self._disk, self._path, self._mode = disk, path, mode

    def close(self):
        if not self.closed and ("w" in self._mode or "a" in self._mode):
            self._disk.files[self._path] = self.getvalue()
        super().close()

    def __exit__(self, *a):
        self.close()
        return False


class SimDisk:
    """In-memory file system with fault injection."""

    def __init__(self):
        self.files = {}
        self.fault = None  # one-shot fault attached to the next operation
        self.log = []
        self.fired_counts = {}

    def fired(self, kind):
        self.fired_counts[kind] = self.fired_counts.get(kind, 0) + 1

    def open(self, path, mode="r", *a, **k):
        path = os.fspath(path)
        if isinstance(path, bytes):
            path = path.decode()
        self.log.append((mode, path))
        f = self.fault
        if f and f["kind"] == "open_fail" and (f.get("mode") is None or f["mode"] in mode):
            self.fired("open_fail:" + f["exc"])
            exc = {
                "FileNotFoundError": FileNotFoundError(errno.ENOENT, "No such file (simulated)", path),
                "PermissionError": PermissionError(errno.EACCES, "Permission denied (simulated)", path),
                "ENOSPC": OSError(errno.ENOSPC, "No space left on device (simulated)", path),
            }[f["exc"]]
            raise exc
        binary = "b" in mode
        if "r" in mode:
            if path not in self.files:
                raise FileNotFoundError(errno.ENOENT, "No such file (simulated)", path)
            data = self.files[path]
            if f and f["kind"] == "torn_read":
                self.fired("torn_read")
                data = data[: f["at"]]
            if binary:
                return _SimBinFile(self, path, mode, data if isinstance(data, bytes) else data.encode())
            return _SimFile(self, path, mode, data if isinstance(data, str) else data.decode())
        if binary:
            return _SimBinFile(self, path, mode)
        return _SimFile(self, path, mode)


class SimClock:
    """Clock read by tqdm.  Behaviours: mono, stall, back, jump."""

    def __init__(self, behaviour="mono"):
        self.behaviour = behaviour
        self.t = 1_000_000.0
        self.calls = 0

    def __call__(self):
        self.calls += 1
        b = self.behaviour
        if b == "mono":
            self.t += 0.013
        elif b == "stall":
            pass
        elif b == "back":
            self.t -= 7.5 if self.calls % 3 == 0 else -0.2
        elif b == "jump":
            self.t += 3600.0 * 5 if self.calls % 4 == 0 else 0.001
        return self.t


class _Sink:
    def write(self, s):
        return len(s)

    def flush(self):
        pass


_PNG_1x1 = bytes.fromhex(
    "89504e470d0a1a0a0000000d4948445200000001000000010806000000"
    "1f15c4890000000d49444154789c6360000002000001e221bc330000000049454e44ae426082"
)


class SimProc:
    """Stub of the graphviz subprocess (pydot.core.call_graphviz)."""

    def __init__(self, disk):
        self.disk = disk
        self.fault = None
        self.calls = []
        self.fired_counts = {}

    def __call__(self, program, arguments, working_dir, **kw):
        src_path = arguments[-1]
        fmt = arguments[0]
        src = self.disk.files.get(src_path, "")
        self.calls.append({"program": program, "fmt": fmt, "dot": src})
        f = self.fault
        if f:
            self.fired_counts[f["kind"]] = self.fired_counts.get(f["kind"], 0) + 1
            if f["kind"] == "no_dot":
                raise OSError(errno.ENOENT, "No such file or directory (simulated)", program)
            if f["kind"] == "dot_exit":

                class P:
                    returncode = 1

                return b"", b"Error: syntax error (simulated)", P()

        class P0:
            returncode = 0

        out = _PNG_1x1 if fmt == "-Tpng" else (src.encode() if isinstance(src, str) else src)
        return out, b"", P0()


class SimConsole:
    def __init__(self):
        self.buf = []

    def print(self, *objs, **kw):
        from rich.console import Console

        sio = io.StringIO()
        Console(file=sio, width=500, color_system=None, force_terminal=False, legacy_windows=False).print(*objs, **kw)
        self.buf.append(sio.getvalue())

    def take(self):
        out = "".join(self.buf)
        self.buf = []
        return out


class SweepMonitor:
    """Counts solver sweeps and keeps the last iterates (C03).  Installed by
    wrapping System._fwd_prop / _back_prop on the class; no source change."""

    def __init__(self):
        self.reset()

    def reset(self):
        self.fwd = 0
        self.back = 0
        self.hist = []  # list of (v_in, i_in, v_out, i_out) for the last sweeps
        self.by_phase = {}  # phase -> [sweeps, last (v_in, i_in, v_out, i_out)]
        self._cur = None

    def on_fwd(self, v, i, out, phase=""):
        self.fwd += 1
        self._cur = [list(map(float, v)), list(map(float, i)), list(map(float, out[0])), None]
        self.by_phase.setdefault(phase, [0, None])[0] += 1

    def on_back(self, v, i, out, phase=""):
        self.back += 1
        if self._cur is not None:
            self._cur[3] = list(map(float, out))
            self.hist.append(tuple(self._cur))
            self.hist = self.hist[-3:]
            self.by_phase.setdefault(phase, [0, None])[1] = self.hist[-1]
            self._cur = None


class World:
    """Context manager installing all seams; restores them on exit."""

    def __init__(self, clock="mono"):
        self.S, self.C, self.D = import_sysloss()
        self.disk = SimDisk()
        self.clock = SimClock(clock)
        self.proc = SimProc(self.disk)
        self.console = SimConsole()
        self.sweeps = SweepMonitor()
        self.graphs = []  # pydot.Dot objects handed to the renderer
        self.warnings = []
        self._saved = []

    def _set(self, obj, name, val):
        missing = object()
        self._saved.append((obj, name, obj.__dict__.get(name, missing) if hasattr(obj, "__dict__") else getattr(obj, name, missing), missing))
        setattr(obj, name, val)

    def __enter__(self):
        import pydot
        import pydot.core as pc
        import tqdm.std as tstd

        S, C = self.S, self.C
        self._set(S, "open", self.disk.open)
        self._set(C, "open", self.disk.open)
        self._set(pc, "open", self.disk.open)
        self._set(pc, "call_graphviz", self.proc)
        self._set(S, "print", self.console.print)
        self._set(tstd, "time", self.clock)
        tstd.tqdm.monitor_interval = 0
        self._set(S, "tqdm", partial(tstd.tqdm, file=_Sink()))

        world = self
        orig_write = pydot.Dot.write
        orig_create = pydot.Dot.create

        def write(self_, path, prog=None, format="raw", encoding=None):
            world.graphs.append(self_)
            return orig_write(self_, path, prog=prog, format=format, encoding=encoding)

        def create(self_, prog=None, format="ps", encoding=None):
            if not world.graphs or world.graphs[-1] is not self_:
                world.graphs.append(self_)
            return orig_create(self_, prog=prog, format=format, encoding=encoding)

        self._set(pydot.Dot, "write", write)
        self._set(pydot.Dot, "create", create)

        ofwd, oback = S.System._fwd_prop, S.System._back_prop

        def fwd(self_, v, i, phase="", state=[]):
            out = ofwd(self_, v, i, phase, state)
            world.sweeps.on_fwd(v, i, out, phase)
            return out

        def back(self_, v, i, phase="", state=[]):
            out = oback(self_, v, i, phase, state)
            world.sweeps.on_back(v, i, out, phase)
            return out

        self._set(S.System, "_fwd_prop", fwd)
        self._set(S.System, "_back_prop", back)
        from . import spec as _spec

        _spec.CURRENT_WORLD = self
        self._wctx = warnings.catch_warnings(record=True)
        self.warnings = self._wctx.__enter__()
        warnings.simplefilter("always")
        return self

    def __exit__(self, *a):
        from . import spec as _spec

        _spec.CURRENT_WORLD = None
        self._wctx.__exit__(*a)
        for obj, name, old, missing in reversed(self._saved):
            if old is missing:
                try:
                    delattr(obj, name)
                except AttributeError:
                    pass
            else:
                setattr(obj, name, old)
        self._saved = []
        # hygiene between sessions of one worker: library-level defaults that a
        # (mutated) library let a session pollute must not leak into the next
        try:
            import copy
            from .spec import LIMITS_DEFAULT as DOC_LIMITS

            if self.C.LIMITS_DEFAULT != DOC_LIMITS:
                self.C.LIMITS_DEFAULT.clear()
                self.C.LIMITS_DEFAULT.update(copy.deepcopy(DOC_LIMITS))
        except Exception:
            pass
        try:
            import copy

            d = getattr(self.D, "_DEF_CONF", None)
            if isinstance(d, dict) and d != PRISTINE_CONF:
                d.clear()
                d.update(copy.deepcopy(PRISTINE_CONF))
        except Exception:
            pass
        try:
            import matplotlib.pyplot as plt

            plt.close("all")
        except Exception:
            pass
        return False
