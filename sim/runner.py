"""Run orchestration: one run = one seeded session; workers are separate
interpreters under a fixed PYTHONHASHSEED; results merge in run-index order."""
import hashlib
import json
import os
import signal
import subprocess
import sys
import time
import traceback
from collections import Counter

from .rng import run_rng, R

VERIF = os.path.dirname(os.path.dirname(os.path.abspath(__file__)))

ENABLED = {
    "C01": {"C01"},
    "C02": {"C02"},
    "C03": {"C03"},
    "C04": {"C04"},
    "C05": {"C05"},
    "C06": {"C06"},
    "C07": {"C07"},
    "C08": {"C08"},
    "C09": {"C09"},
    "C12": {"C12"},
    "C13": {"C13"},
    "C14": {"C14"},
    "C15": {"C15"},
    "C16": {"C16"},
    "C17": {"C17"},
    "C18": {"C18"},
    "C19": {"C19"},
}


class RunTimeout(BaseException):
    pass


def _alarm(signum, frame):
    raise RunTimeout()


def digest(obj):
    return hashlib.sha256(json.dumps(obj, sort_keys=True, default=str).encode()).hexdigest()[:16]


def execute(prop, ops=None, seed=None, idx=None, tier="quick", cfg=None, enabled=None, timeout=180):
    """Execute one session: generated from (seed, idx) or replayed from ops."""
    from .world import World
    from .session import Session, HarnessError
    from .drive import swarm, drive
    from . import specials  # noqa: registers SPECIAL drivers

    res = {"idx": idx, "prop": prop, "violations": [], "harness": None}
    record = []
    if ops is None:
        rnd = run_rng(seed, prop, idx)
        if cfg is None:
            cfg = make_cfg(prop, rnd, tier)
    enabled = enabled or ENABLED[prop]
    t_start = time.time()
    old = signal.signal(signal.SIGALRM, _alarm)
    signal.setitimer(signal.ITIMER_REAL, timeout)
    sess = None
    try:
        with World(clock=(cfg or {}).get("clock", "mono")) as w:
            sess = Session(w, cfg or {}, enabled)
            if ops is None:
                special = SPECIAL.get(prop)
                if special and cfg.get("special", True):
                    stream = special(sess, rnd, cfg, record)
                else:
                    stream = drive(sess, rnd, cfg, record)
                sess.run(stream)
            else:
                record = ops
                sess.run(list(ops))
    except RunTimeout:
        res["harness"] = "TIMEOUT after %ss at step %s" % (timeout, sess.step if sess else "?")
        res["timeout"] = True
    except HarnessError as e:
        res["harness"] = "HarnessError: %s" % e
    except Exception:
        res["harness"] = traceback.format_exc()[-1500:]
    finally:
        signal.setitimer(signal.ITIMER_REAL, 0)
        signal.signal(signal.SIGALRM, old)
    if sess is not None:
        res["violations"] = sess.violations + sess.other_alarms
        kinds = set(k for k, _ in sess.interleave)
        ana = kinds & {"solve", "rail_rep", "params", "limits", "phases", "tree", "save", "make_diag", "make_hdiag", "plot_interp", "batt_life"}
        if len(ana) >= 4:
            sess.nontrivial.add(("analysis-interleaving", digest(sess.interleave)))
        n_ok = sum(1 for k, o in sess.interleave if o == "ok" and k in ("add_comp", "add_source", "change_comp", "del_comp", "set_sys_phases", "set_comp_phases"))
        n_rej = sum(1 for k, o in sess.interleave if o == "rej")
        if n_ok >= 5 and n_rej >= 3:
            sess.nontrivial.add(("edit-history", digest([x for x in sess.interleave if x[0] in ("add_comp", "add_source", "change_comp", "del_comp", "set_sys_phases", "set_comp_phases")])))
        if getattr(w, "file_built", 0):
            sess.stats["file_built_components"] += w.file_built
        res["stats"] = dict(sess.stats)
        res["steps"] = sess.step + 1
        res["outcomes"] = sess.outcomes
        res["nontrivial"] = sorted(set(digest(x) for x in sess.nontrivial))
        res["interleave"] = digest(sess.interleave)
        res["shape"] = digest(sess.model.shape()) if sess.model is not None else None
        res["digest"] = digest([sess.outcomes, sess.violations, sorted(sess.stats.items())])
        res["faults"] = dict(w.disk.fired_counts)
        res["faults"].update({"proc:" + k: v for k, v in w.proc.fired_counts.items()})
    res["ops"] = record
    res["cfg"] = cfg
    res["wall"] = round(time.time() - t_start, 3)
    return res


def make_cfg(prop, rnd, tier):
    from .drive import swarm

    return swarm(prop, R(rnd), tier)


SPECIAL = {}


def register_special(prop):
    def deco(fn):
        SPECIAL[prop] = fn
        return fn

    return deco


def worker_main(args):
    """Worker entry: run indices a, a+step, ... < b; JSON lines to args.out."""
    from . import specials  # noqa: registers SPECIAL drivers

    t0 = time.time()
    a, b, step = args.indices
    n = 0
    with open(args.out, "w") as f:
        for idx in range(a, b, step):
            if args.budget and time.time() - t0 > args.budget and n >= 1:
                break
            r = execute(args.property, seed=args.seed, idx=idx, tier=args.tier)
            if r.get("cfg") is not None:
                r["cfg"]["hash_class"] = int(os.environ.get("PYTHONHASHSEED", "0") or 0)
            keep_ops = bool(r["violations"] or r["harness"]) or idx < args.keep_samples
            if not keep_ops:
                r["ops"] = None
            f.write(json.dumps(r, default=str) + "\n")
            f.flush()
            n += 1


def spawn_workers(prop, tier, seed, n_runs, workers, hashseed, budget, tmpdir, keep_samples=3, start=0):
    procs = []
    env = dict(os.environ)
    env["PYTHONHASHSEED"] = str(hashseed)
    env["PYTHONDONTWRITEBYTECODE"] = "1"
    env["MPLBACKEND"] = "Agg"
    env["OMP_NUM_THREADS"] = "1"
    env["OPENBLAS_NUM_THREADS"] = "1"
    for wi in range(workers):
        out = os.path.join(tmpdir, "w%d_%d.jsonl" % (hashseed, wi))
        cmd = [sys.executable, os.path.join(VERIF, "simcheck.py"), "--worker", "--property", prop, "--tier", tier,
               "--seed", str(seed), "--indices", "%d:%d:%d" % (start + wi, start + n_runs, workers), "--out", out,
               "--budget", str(budget), "--keep-samples", str(keep_samples)]
        procs.append((subprocess.Popen(cmd, env=env, stdout=subprocess.DEVNULL, stderr=subprocess.PIPE), out))
    return procs


def collect(procs, hard_timeout):
    results, errors = [], []
    t0 = time.time()
    for p, out in procs:
        left = max(1.0, hard_timeout - (time.time() - t0))
        try:
            _, err = p.communicate(timeout=left)
            if p.returncode != 0:
                errors.append("worker exit %s: %s" % (p.returncode, (err or b"").decode()[-800:]))
        except subprocess.TimeoutExpired:
            p.kill()
            p.communicate()
            errors.append("worker killed at hard timeout")
        if os.path.exists(out):
            with open(out) as f:
                for line in f:
                    line = line.strip()
                    if line:
                        try:
                            results.append(json.loads(line))
                        except Exception:
                            errors.append("bad worker line")
    results.sort(key=lambda r: r["idx"])
    return results, errors
