"""Delta debugging over a recorded session (every subsequence is a valid
session) followed by per-operation simplification passes."""
import copy


def _sig(v):
    return (v["prop"], v["clause"])


def fails_same(run, ops, sig):
    r = run(ops)
    if r.get("harness"):
        return False
    return any(_sig(v) == sig for v in r["violations"])


def ddmin(run, ops, sig, budget):
    n = 2
    cnt = 0
    ops = list(ops)
    while len(ops) >= 2 and cnt < budget:
        chunk = max(1, len(ops) // n)
        reduced = False
        for i in range(0, len(ops), chunk):
            cand = ops[:i] + ops[i + chunk:]
            if not cand or cand[0].get("op") != "new":
                continue
            cnt += 1
            if fails_same(run, cand, sig):
                ops = cand
                n = max(n - 1, 2)
                reduced = True
                break
            if cnt >= budget:
                break
        if not reduced:
            if chunk == 1:
                break
            n = min(n * 2, len(ops))
    return ops, cnt


def _simplify_candidates(op):
    """Simpler variants of one operation."""
    out = []
    for key in ("twice", "werr", "fault", "skew", "render", "note", "probe_full", "cls"):
        if key in op and key not in ("cls",):
            c = copy.deepcopy(op)
            del c[key]
            out.append(c)
    if op.get("group"):
        c = copy.deepcopy(op)
        c["group"] = ""
        out.append(c)
    if op.get("rail"):
        c = copy.deepcopy(op)
        c["rail"] = ""
        out.append(c)
    comp = op.get("comp")
    if comp:
        if comp.get("lim"):
            c = copy.deepcopy(op)
            c["comp"]["lim"] = None
            out.append(c)
            for k in list(comp["lim"]):
                if len(comp["lim"]) > 1:
                    c = copy.deepcopy(op)
                    del c["comp"]["lim"][k]
                    out.append(c)
        from .spec import MANDATORY

        for k, v in comp["p"].items():
            if k not in MANDATORY[comp["kind"]] or (comp["kind"] == "Rectifier" and k == "vdrop"):
                c = copy.deepcopy(op)
                del c["comp"]["p"][k]
                out.append(c)
            if isinstance(v, dict):
                c = copy.deepcopy(op)
                key = [x for x in v if x not in ("vi", "io")][0]
                c["comp"]["p"][k] = v[key][0][0]
                out.append(c)
            if isinstance(v, (int, float)) and not isinstance(v, bool) and v < 0:
                c = copy.deepcopy(op)
                c["comp"]["p"][k] = -v
                out.append(c)
    if op.get("op") in ("solve", "rail_rep", "observe") and op.get("kw"):
        for k in list(op["kw"]):
            c = copy.deepcopy(op)
            del c["kw"][k]
            out.append(c)
    if op.get("op") == "set_comp_phases" and isinstance(op.get("conf"), (list, dict)) and len(op["conf"]) > 1:
        for k in list(op["conf"]):
            c = copy.deepcopy(op)
            if isinstance(c["conf"], list):
                c["conf"].remove(k)
            else:
                del c["conf"][k]
            out.append(c)
    return out


def minimise(run, ops, sig, budget=300):
    ops, used = ddmin(run, ops, sig, budget)
    changed = True
    while changed and used < budget:
        changed = False
        # single-op removal to fixpoint
        i = len(ops) - 1
        while i >= 1 and used < budget:
            cand = ops[:i] + ops[i + 1:]
            used += 1
            if fails_same(run, cand, sig):
                ops = cand
                changed = True
            i -= 1
        for i in range(len(ops)):
            for cand_op in _simplify_candidates(ops[i]):
                if used >= budget:
                    break
                cand = ops[:i] + [cand_op] + ops[i + 1:]
                used += 1
                if fails_same(run, cand, sig):
                    ops = cand
                    changed = True
                    break
    return ops, used
