"""Property-specific session drivers (registered into runner.SPECIAL)."""
import copy

from .runner import register_special
from .drive import drive, make_observe, OBS_KW
from .gen import Gen
from .spec import LOADS


def _prefix(sess, rnd, cfg, record, n_ops=0):
    """Grow a system with the generic driver (no main loop) and yield its ops."""
    c = dict(cfg)
    c["n_ops"] = n_ops
    for op in drive(sess, rnd, c, record):
        if op.get("final"):
            op = dict(op)
            op.pop("final")
            record[-1].pop("final", None)
        yield op


def _emit(record, op):
    record.append(copy.deepcopy(op))
    return op


@register_special("C18")
def drive_c18(sess, rnd, cfg, record):
    cfg["w"] = dict(cfg["w"], analyse=0.2, reject=0.1, restart=0.1, domfault=0.0, observe=1.0)
    cfg["multi_source"] = 0.6
    cfg["max_comps"] = min(cfg["max_comps"], 9)
    yield from _prefix(sess, rnd, cfg, record, n_ops=cfg["n_ops"] // 3)
    g = sess.gen
    R = g.r
    for _ in range(R.randint(1, 3)):
        m = sess.model
        from . import observe as O

        tb = None
        r = sess._guard(lambda: sess.sut.solve(**OBS_KW))
        if r[0] == "ok":
            tb = O.Table(r[1])
        else:
            break
        if m.sys_phases and R.chance(0.3):
            # an idle phase: everything directly below one source is switched
            # off in one phase, so a battery there sees exactly zero current
            src = R.pick(m.sources())
            phs = list(m.sys_phases.keys())
            off = R.pick(phs)
            others = [p for p in phs if p != off]
            for c in m.children(src):
                k = m.kind(c)
                if k in ("Converter", "LinReg", "PSwitch", "PMux"):
                    yield _emit(record, {"op": "set_comp_phases", "name": c, "conf": others})
                elif k in LOADS and k != "RLoad":
                    base = abs(m.comps[c]["p"]["pwr" if k == "PLoad" else "ii"])
                    conf = {p: base for p in others}
                    conf[off] = 0.0
                    yield _emit(record, {"op": "set_comp_phases", "name": c, "conf": conf})
            m = sess.model
            r = sess._guard(lambda: sess.sut.solve(**OBS_KW))
            if r[0] != "ok":
                break
            tb = O.Table(r[1])
        if R.chance(0.12):
            op = g.op_batt_nonsource(m)
        else:
            op = g.op_batt(m, tb)
        if op is None:
            continue
        if R.chance(0.25):
            # a load is moved (component count unchanged) and batt_life() is the
            # first analysis after it
            mv = g.op_move(m)
            if mv is not None:
                yield _emit(record, mv)
                for e in g.pending:
                    yield _emit(record, e)
                g.pending = []
                sess.stats["batt_life_first_analysis_after_move"] += 1
                if op.get("battery") not in sess.model.comps and op.get("battery") not in sess.model.rails.values():
                    continue
        yield _emit(record, op)
        # same battery, another clock: the result must not depend on it
        if R.chance(0.3) and "pfault" not in op:
            op2 = copy.deepcopy(op)
            op2["clock"] = R.pick(["stall", "back", "jump", "mono"])
            op2["same_as_prev"] = True
            yield _emit(record, op2)
        if R.chance(0.3):
            e = g.op_change(sess.model) if R.chance(0.5) else g.op_comp_phases(sess.model)
            if e:
                yield _emit(record, e)
    op = make_observe(g, sess.model, cfg)
    op["final"] = True
    yield _emit(record, op)


@register_special("C17")
def drive_c17(sess, rnd, cfg, record):
    """Analysis-heavy session; half of the runs add the batt_life callback-fault
    enumeration: a fault-free run counting K invocations, then a run with an
    exception at the k-th invocation for every k in 1..K+1."""
    cfg["env_faults"] = 0.35
    R0 = None
    if rnd.random() < 0.5:
        yield from drive(sess, rnd, cfg, record)
        return
    cfg["max_comps"] = min(cfg["max_comps"], 9)
    yield from _prefix(sess, rnd, cfg, record, n_ops=4)
    g = sess.gen
    R = g.r
    from . import observe as O

    r = sess._guard(lambda: sess.sut.solve(**OBS_KW))
    if r[0] != "ok":
        return
    tb = O.Table(r[1])
    base = g.op_batt(sess.model, tb)
    if base is None:
        op = make_observe(g, sess.model, cfg)
        op["final"] = True
        yield _emit(record, op)
        return
    base.pop("clock", None)
    yield _emit(record, base)
    K = len(sess.last_peer.log) if getattr(sess, "last_peer", None) else 0
    ks = list(range(1, K + 2))
    if len(ks) > 40:
        ks = ks[:10] + sorted(R.sample(ks[10:-2], 26)) + ks[-2:]
    for j, k in enumerate(ks):
        op = copy.deepcopy(base)
        op["pfault"] = {"k": k, "exc": "KeyboardInterrupt" if (j % 13 == 5) else ("SystemExit" if (j % 13 == 9) else "RuntimeError")}
        op["probe_full"] = (j == len(ks) - 1)
        if k > 1:
            sess.nontrivial.add(("battfault", base["model"]["kind"], min(k, 20), op["pfault"]["exc"]))
        yield _emit(record, op)
        if R.chance(0.15):
            yield _emit(record, g.op_analysis_of(sess.model, R.pick(["solve", "params", "rail_rep"])))
    op = make_observe(g, sess.model, cfg)
    op["final"] = True
    yield _emit(record, op)


@register_special("C03")
def drive_c03(sess, rnd, cfg, record):
    """Three run classes: modest (default settings must solve), stress
    (overloads, random vtol/itol/maxiter), micro (nA..uA currents judged at
    the requested tolerance)."""
    x = rnd.random()
    klass = "modest" if x < 0.4 else ("stress" if x < 0.8 else "micro")
    cfg["c03_class"] = klass
    cfg["rect_rs_list"] = rnd.random() < 0.03
    if cfg["rect_rs_list"] and "Rectifier" not in cfg["kinds"]:
        cfg["kinds"].append("Rectifier")
    cfg["w"] = dict(cfg["w"], reject=0.1, analyse=0.1, restart=0.1, observe=0.0, domfault=0.0)
    if klass == "micro":
        cfg["micro"] = True
        sess.tol_atol = 0.0
        cfg["tables"] = 0.0
    if klass == "stress":
        cfg["max_comps"] = min(cfg["max_comps"], 6)
        cfg["max_depth"] = min(cfg["max_depth"], 4)
        cfg["phases"] = 0.0
    yield from _prefix(sess, rnd, cfg, record, n_ops=3)
    g = sess.gen
    R = g.r
    if klass == "modest" and sess.model.mux() is None and R.chance(0.12):
        # a supply that is strong in one phase and weak in the next: a mux falls
        # back from a phase-limited 5 V source to a 3 V cell with 10 ohm, the
        # load is heavy in the first phase only.  Every phase has a modest
        # operating point of its own.
        from .spec import mk

        m = sess.model
        phs = list(m.sys_phases.keys())
        if len(phs) < 2:
            phs = ["tx", "sleep"] if R.chance(0.7) else ["sleep", "tx"]
            yield _emit(record, {"op": "set_sys_phases", "phases": {phs[0]: R.pick([0.1, 5.5]), phs[1]: R.pick([120.0, 3600.0])}})
        hot = phs[0] if R.chance(0.7) else phs[-1]
        strong = mk("Source", g.fresh("S", m), {"vo": 5.0, "rs": 0.05}, None)
        weak = mk("Source", g.fresh("S", m), {"vo": 3.0, "rs": 10.0}, None)
        mux = mk("PMux", g.fresh("PM", m), {"rs": 0.01}, None)
        load = mk("PLoad", g.fresh("PL", m), {"pwr": 2.0, "pwrs": 0.001}, None)
        yield _emit(record, {"op": "add_source", "comp": strong, "group": "", "rail": ""})
        yield _emit(record, {"op": "add_source", "comp": weak, "group": "", "rail": ""})
        yield _emit(record, {"op": "set_comp_phases", "name": strong["name"], "conf": [hot]})
        yield _emit(record, {"op": "add_comp", "parent": [strong["name"], weak["name"]], "comp": mux, "group": "", "rail": ""})
        yield _emit(record, {"op": "add_comp", "parent": mux["name"], "comp": load, "group": "", "rail": ""})
        yield _emit(record, {"op": "set_comp_phases", "name": load["name"], "conf": {hot: 2.0}})
        sess.stats["c03_phase_fallback_scenarios"] += 1
        yield _emit(record, {"op": "observe", "ta": 25.0, "sh": 1, "kw": {}, "c03": klass})
    if klass == "modest" and R.chance(0.12):
        # a load whose nominal value is a worst-case figure far above anything
        # it draws in the defined phases (every phase is configured, so the
        # nominal value applies in none of them)
        from .spec import mk

        m = sess.model
        phs = list(m.sys_phases.keys())
        if len(phs) < 2:
            phs = ["sleep", "tx"]
            yield _emit(record, {"op": "set_sys_phases", "phases": {"sleep": 120.0, "tx": 0.1}})
        par = R.pick(g.nonload(m))
        vn = abs(g.vnom(m, par)) or 1.0
        kind = R.pick(["ILoad", "ILoad", "PLoad"])
        small = g.eng(-3, -3)
        if kind == "ILoad":
            load = mk("ILoad", g.fresh("IL", m), {"ii": small * 2000.0}, None)
            conf = {ph: small * R.pick([0.5, 1.0, 2.0]) for ph in phs}
        else:
            load = mk("PLoad", g.fresh("PL", m), {"pwr": small * vn * 2000.0}, None)
            conf = {ph: small * vn * R.pick([0.5, 1.0, 2.0]) for ph in phs}
        yield _emit(record, {"op": "add_comp", "parent": par, "comp": load, "group": "", "rail": ""})
        yield _emit(record, {"op": "set_comp_phases", "name": load["name"], "conf": conf})
        sess.stats["c03_worst_case_nominal_scenarios"] += 1
        yield _emit(record, {"op": "observe", "ta": 25.0, "sh": 1, "kw": {}, "c03": klass})
    for _ in range(R.randint(2, 6)):
        m = sess.model
        if klass == "stress":
            e = R.wpick([(g.op_overload, 3), (g.op_domfault, 1), (g.op_add_comp, 1), (g.op_change, 1)])(m)
        else:
            e = R.wpick([(g.op_add_comp, 3), (g.op_change, 2), (g.op_del, 1), (g.op_domfault, 0.5 if klass == "modest" else 0)])(m)
        if e:
            yield _emit(record, e)
        op = {"op": "observe", "ta": 25.0, "sh": 1, "kw": {}, "c03": klass}
        m = sess.model
        if m.sys_phases and R.chance(0.6):
            op["kw"]["phase"] = R.pick(list(m.sys_phases.keys()))
        if klass == "stress" or (klass in ("micro", "modest") and R.chance(0.5 if klass == "micro" else 0.25)):
            op["kw"]["vtol"] = 10.0 ** R.randint(-9, -2)
            op["kw"]["itol"] = 10.0 ** R.randint(-9, -2)
            op["kw"]["maxiter"] = R.wpick([(0, 1), (1, 1), (2, 1), (3, 1), (5, 1), (10, 1), (100, 2), (1000, 2), (10000, 1)])
        yield _emit(record, op)


@register_special("C04")
def drive_c04(sess, rnd, cfg, record):
    """Reach a tree, then inject a kill fault at every position x kill kind."""
    if rnd.random() < 0.35:
        yield from drive(sess, rnd, cfg, record)
        return
    cfg["max_comps"] = min(cfg["max_comps"], 10)
    cfg["max_depth"] = max(cfg["max_depth"], 3)
    yield from _prefix(sess, rnd, cfg, record, n_ops=cfg["n_ops"] // 4)
    g = sess.gen
    R = g.r
    yield _emit(record, {"op": "kill_sweep"})
    for _ in range(R.randint(0, 2)):
        e = R.wpick([(g.op_change, 2), (g.op_del, 1), (g.op_add_comp, 2), (g.op_comp_phases, 1)])(sess.model)
        if e:
            yield _emit(record, e)
    if R.chance(0.4):
        yield _emit(record, {"op": "kill_sweep"})
    op = make_observe(g, sess.model, cfg)
    op["final"] = True
    yield _emit(record, op)


@register_special("C05")
def drive_c05(sess, rnd, cfg, record):
    """Grow a mux early, then visit all 2^n live/dead patterns of its inputs."""
    if rnd.random() < 0.3:
        yield from drive(sess, rnd, cfg, record)
        return
    cfg["mux"] = 1.0
    cfg["max_comps"] = min(max(cfg["max_comps"], 5), 10)
    if "PMux" not in cfg["kinds"]:
        cfg["kinds"].append("PMux")
    yield from _prefix(sess, rnd, cfg, record, n_ops=2)
    g = sess.gen
    R = g.r
    if sess.model.mux() is None:
        e = g.op_add_mux(sess.model)
        if e:
            yield _emit(record, e)
    m = sess.model
    if m.mux() is not None:
        for _ in range(R.randint(1, 3)):
            e = g.op_add_comp(sess.model, parent=sess.model.mux()) if R.chance(0.7) else g.op_add_comp(sess.model)
            if e:
                yield _emit(record, e)
        yield _emit(record, {"op": "mux_patterns"})
        if R.chance(0.4):
            # rename / replace an input or the mux, then visit the patterns again
            tgt = R.pick(sess.model.parents[sess.model.mux()] + [sess.model.mux()])
            e = g.op_change(sess.model)
            if e:
                yield _emit(record, e)
            if R.chance(0.3):
                for e in g.ops_rename_above_then_unlink(sess.model):
                    yield _emit(record, e)
            if R.chance(0.4):
                # the mux keeps its priority order across a restart
                yield _emit(record, {"op": "restart", "replace": True})
            if sess.model.mux() is not None:
                yield _emit(record, {"op": "mux_patterns"})
    op = make_observe(g, sess.model, cfg)
    op["final"] = True
    yield _emit(record, op)
