"""Property-specific session drivers (registered into runner.SPECIAL)."""
