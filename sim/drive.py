"""Session drivers: turn a PRNG and a swarm configuration into a stream of
operations, looking at the session's reference model between operations."""
import copy
import os
from .gen import Gen, default_cfg, ALL_CHILD_KINDS, SERIES_KINDS
from .spec import LOADS, KINDS

OBS_KW = {"maxiter": 2000}


def swarm(prop, r, tier):
    """Per-run swarm configuration (which kinds, op groups, faults, forms)."""
    cfg = default_cfg()
    cfg["focus"] = prop
    R = r
    thorough = tier == "thorough"
    cfg["max_comps"] = R.randint(4, 14 if thorough else 11)
    cfg["max_depth"] = R.randint(2, 6)
    cfg["n_ops"] = R.randint(8, 40 if thorough else 24)
    cfg["tables"] = R.pick([0.0, 0.15, 0.4])
    cfg["limits"] = R.pick([0.0, 0.3, 0.6])
    cfg["rt"] = R.pick([0.0, 0.3, 0.7])
    cfg["groups"] = R.pick([0.0, 0.4, 0.8])
    cfg["rails"] = R.pick([0.0, 0.4, 0.8])
    cfg["phases"] = R.pick([0.0, 0.5, 1.0])
    cfg["mux"] = R.pick([0.0, 0.5, 1.0])
    cfg["multi_source"] = R.pick([0.0, 0.5, 1.0])
    cfg["neg_supply"] = R.pick([0.0, 0.25, 0.6])
    cfg["neg_params"] = R.pick([0.0, 0.0, 0.3])
    cfg["names"] = R.pick(["plain", "plain", "fancy"])
    cfg["clock"] = R.pick(["mono", "stall", "back", "jump"])
    cfg["warn_error"] = R.chance(0.25)
    cfg["neg_source_rs"] = R.chance(0.04)
    cfg["zero_params"] = R.pick([0.0, 0.0, 0.08])
    cfg["sparse"] = R.chance(0.3)
    cfg["deprecated_iq"] = R.chance(0.25)
    cfg["slot_reuse"] = prop in ("C07", "C16", "C05", "C09", "C01") and R.chance(0.1)
    cfg["mux_slot0"] = prop in ("C14", "C15", "C12", "C16", "C05") and not cfg["slot_reuse"] and R.chance(0.08)
    cfg["mixed_scale"] = prop in ("C01", "C02", "C03", "C07", "C09") and R.chance(0.1)
    if prop in ("C01", "C02", "C07", "C08") and R.chance(0.03):
        cfg["names"] = "summary"
    cfg["zero_phase"] = prop in ("C01", "C02", "C06", "C07", "C19") and R.chance(0.15)
    if prop in ("C14", "C16", "C15", "C12", "C17") and R.chance(0.03):
        cfg["names"] = "markup"
    cfg["tables2d_general"] = R.pick([0.3, 0.6])
    cfg["inf_limits"] = R.chance(0.15)
    cfg["via_file"] = R.pick([0.0, 0.0, 0.5])
    cfg["collapse_inputs"] = prop in ("C12", "C16", "C14", "C15") and R.chance(0.06)
    # the same numbers spelled as ints / numpy floats
    cfg["arg_forms"] = R.chance(0.06)
    # scale: hundreds of siblings (node numbers above 256) / long daisy chains
    cfg["wide"] = prop in ("C01", "C02", "C04", "C05", "C07", "C09", "C16", "C12") and R.chance(0.03)
    cfg["chain"] = 0
    if prop in ("C08", "C03", "C18", "C01", "C06") and R.chance(0.03):
        cfg["chain"] = R.pick([30, 60, 60, 270] if prop == "C08" else ([60] if prop == "C18" else [30, 60]))
    # nA..uA systems (everything scaled down): same laws, nanowatt losses
    cfg["micro"] = prop not in ("C03", "C17") and R.chance(0.07)
    # a random subset of kinds is disabled (swarm)
    kinds = list(KINDS)
    for k in R.sample(ALL_CHILD_KINDS, R.randint(0, 4)):
        kinds.remove(k)
    if not any(k in kinds for k in LOADS):
        kinds.append("PLoad")
    cfg["kinds"] = kinds
    w = cfg["w"]
    if prop == "C15":
        cfg["all_rejects"] = thorough and R.chance(0.5)
        w.update({"grow": 3, "edit": 2, "reject": 5, "phase": 1, "domfault": 0.2, "analyse": 0.5, "restart": 0.2, "observe": 0.4})
    elif prop == "C14":
        w.update({"grow": 3, "edit": 5, "reject": 5, "phase": 0.5, "domfault": 0.2, "analyse": 0.1, "restart": 0.2, "observe": 0.1})
        cfg["n_ops"] = R.randint(20, 60 if thorough else 40)
    elif prop == "C16":
        w.update({"grow": 3, "edit": 6, "reject": 0.5, "phase": 1.5, "domfault": 0.3, "analyse": 0.3, "restart": 0.25, "observe": 1.5})
        cfg["mux"] = R.pick([0.5, 1.0])
    elif prop == "C12":
        w.update({"grow": 4, "edit": 2, "reject": 0.3, "phase": 1.5, "domfault": 0.3, "analyse": 0.3, "restart": 1.5, "observe": 1.0})
    elif prop == "C17":
        w.update({"grow": 3, "edit": 0.7, "reject": 0.2, "phase": 0.7, "domfault": 0.2, "analyse": 8, "restart": 0, "observe": 0.7})
    elif prop in ("C01", "C02", "C04", "C06", "C07", "C08", "C09", "C05"):
        w.update({"grow": 4, "edit": 2, "reject": 0.2, "phase": 1.5, "domfault": 0.6, "analyse": 0.2, "restart": 0.2, "observe": 2.5})
        if prop in ("C06",):
            cfg["phases"] = 1.0
            w["phase"] = 4
        if prop == "C07":
            cfg["multi_source"] = 1.0
            cfg["mux"] = R.pick([0.0, 1.0, 1.0])
            w["edit"] = 3.5
        if prop == "C08":
            cfg["rails"] = R.pick([0.6, 0.9])
            cfg["limits"] = R.pick([0.3, 0.8])
        if prop == "C09":
            cfg["limits"] = R.pick([0.6, 0.9])
            cfg["rt"] = 0.7
            w["edit"] = 4
            cfg["mega"] = R.chance(0.06)
            if cfg["mega"]:
                cfg["tables"] = 0.0
        if prop == "C05":
            cfg["mux"] = 1.0
            cfg["multi_source"] = R.pick([0.5, 1.0])
        if prop == "C04":
            w["domfault"] = 2.5
            cfg["mux"] = R.pick([0.5, 1.0])
    elif prop == "C19":
        w.update({"grow": 4, "edit": 2, "reject": 0.2, "phase": 1, "domfault": 0.2, "analyse": 0.2, "restart": 0.1, "observe": 2})
        cfg["groups"] = R.pick([0.5, 0.9])
        cfg["names"] = R.pick(["plain", "fancy", "fancy"])
        if R.chance(0.05):
            cfg["names"] = "dot"  # names the dot language treats specially (separate class)
    if cfg.get("wide") or cfg.get("chain"):
        # every report costs hundreds of rows / sweeps here: short, sparse sessions
        cfg["n_ops"] = min(cfg["n_ops"], 10)
        cfg["sparse"] = True
    for f_ in os.environ.get("SIM_FORCE", "").split(","):
        if "=" in f_:
            v_ = f_.split("=")[1]
            cfg[f_.split("=")[0]] = int(v_) if v_.isdigit() else v_
        elif f_:
            cfg[f_] = True  # development aid: force a run class on (never set by the registered commands)
    return cfg


def drive(sess, rnd, cfg, record):
    """Generator of operations for one session; `record` receives every op."""
    g = Gen(rnd, cfg)
    sess.gen = g
    R = g.r
    prop = cfg["focus"]

    def emit(op):
        if op is None:
            return False
        if cfg["warn_error"] and op["op"] in ("add_comp", "change_comp") and R.chance(0.5):
            op["werr"] = True
        record.append(copy.deepcopy(op))
        return True

    op = g.op_new()
    emit(op)
    yield op
    m = sess.model
    if m is None:
        return
    target = R.randint(3, cfg["max_comps"])
    if cfg.get("wide") or cfg.get("chain"):
        op = g.op_bulk_wide(m, R.randint(257, 300)) if cfg.get("wide") else g.op_bulk_chain(m, cfg["chain"])
        emit(op)
        yield op
        target += len(sess.model.order)
        cfg["max_comps"] += len(sess.model.order)
        if cfg.get("chain", 0) >= 200:
            # a chain this long needs more than a thousand sweeps: defaults only
            o = {"op": "observe", "ta": 25.0, "sh": 1, "kw": {}}
            emit(o)
            yield o
            o = dict(o, final=True)
            emit(o)
            yield o
            return
    want_mux = R.chance(cfg["mux"])
    want_multi = R.chance(cfg["multi_source"])
    want_phases = R.chance(cfg["phases"])
    # in some runs the mux is only built after edits have freed and re-used node slots
    late_mux = want_mux and R.chance(0.3)
    # ---- growth
    guard = 0
    while len(sess.model.order) < target and guard < 60:
        guard += 1
        m = sess.model
        nsrc = len(m.sources())
        if want_multi and nsrc < R.pick([2, 2, 3, 4]) and R.chance(0.3):
            op = g.op_add_source(m)
        elif want_mux and not late_mux and m.mux() is None and len(m.order) >= (4 if R.chance(0.5) else 2) and R.chance(0.35) and "PMux" in cfg["kinds"]:
            op = g.op_add_mux(m)
        else:
            op = g.op_add_comp(m)
        if emit(op):
            yield op
    if cfg.get("slot_reuse") and sess.model.mux() is None and "PMux" in cfg["kinds"]:
        # node-slot re-use below a late source: an early component is deleted, a
        # source is added last, and a chain built under it (taking over the freed
        # low slots) ends in the mux
        m = sess.model
        victims = [n for n in m.order if m.kind(n) != "Source" and not m.children(n)]
        seq = []
        late = g.op_add_source(m)
        seq.append(late)  # gets a new, high slot
        if victims:
            seq.append({"op": "del_comp", "name": victims[0], "del_childs": True})  # frees a low slot
        for op in seq:
            if emit(op):
                yield op
        m = sess.model
        lname = late["comp"]["name"]
        if lname in m.comps:
            a = g.op_add_comp(m, kinds=[k for k in ("Converter", "LinReg", "RLoss", "PSwitch", "VLoss") if k in cfg["kinds"]] or ["RLoss"], parent=lname)
            if emit(a):
                yield a
            m = sess.model
            an = a["comp"]["name"]
            if an in m.comps:
                b = g.op_add_comp(m, kinds=[k for k in ("LinReg", "RLoss", "PSwitch", "VLoss") if k in cfg["kinds"]] or ["RLoss"], parent=an)
                if emit(b):
                    yield b
                m = sess.model
                bn = b["comp"]["name"]
                others = [x for x in m.sources() if x != lname]
                if bn in m.comps and others:
                    spec = g.comp("PMux", m, g.vnom(m, bn))
                    g.mux_rs(spec, 2)
                    mx = {"op": "add_comp", "parent": [bn, R.pick(others)], "comp": spec, "group": g.group(), "rail": g.rail(m, "PMux")}
                    if emit(mx):
                        yield mx
                    m = sess.model
                    if spec["name"] in m.comps:
                        l = g.op_add_comp(m, kinds=["PLoad", "ILoad"], parent=spec["name"])
                        if emit(l):
                            yield l
                        o = make_observe(g, sess.model, cfg)
                        if emit(o):
                            yield o
    if cfg.get("mux_slot0") and sess.model.mux() is None and "PMux" in cfg["kinds"]:
        # the original first source goes away and the mux is the next thing
        # added: it takes over node slot 0
        m = sess.model
        late = g.op_add_source(m)
        if emit(late):
            yield late
        m = sess.model
        if len(m.sources()) >= 2:
            d = {"op": "del_comp", "name": m.sources()[0], "del_childs": True}
            if emit(d):
                yield d
            m = sess.model
            ins = g.can_parent(m)
            if ins:
                spec = g.comp("PMux", m, g.vnom(m, ins[0]))
                sel = R.sample(ins, min(len(ins), R.randint(1, 3)))
                g.mux_rs(spec, len(sel))
                mx = {"op": "add_comp", "parent": sel, "comp": spec, "group": g.group(), "rail": g.rail(m, "PMux")}
                if emit(mx):
                    yield mx
                m = sess.model
                if spec["name"] in m.comps:
                    l = g.op_add_comp(m, kinds=["PLoad", "ILoad", "RLoss"], parent=spec["name"])
                    if emit(l):
                        yield l
    if want_phases:
        first = []
        if R.chance(0.3):
            # component configurations first, system phases afterwards (the
            # order the project's own tests use)
            for _ in range(R.randint(1, 3)):
                first.append(g.op_comp_phases(sess.model))
            if R.chance(0.3):
                first.append(make_observe(g, sess.model, cfg))
        for op in first:
            if emit(op):
                yield op
        op = g.op_sys_phases(sess.model)
        if emit(op):
            yield op
        for _ in range(R.randint(1, 4)):
            op = g.op_comp_phases(sess.model)
            if emit(op):
                yield op
    # ---- main loop
    w = cfg["w"]
    groups = [(k, v) for k, v in w.items() if v > 0]
    for i in range(cfg["n_ops"]):
        m = sess.model
        grp = R.wpick(groups)
        ops = []
        if grp == "grow":
            if len(m.order) >= cfg["max_comps"]:
                ops = [g.op_del(m)]
            elif want_mux and m.mux() is None and R.chance(0.5 if (late_mux and i >= cfg["n_ops"] // 3) else (0.0 if late_mux else 0.2)) and "PMux" in cfg["kinds"]:
                ops = [g.op_add_mux(m)]
            elif want_multi and R.chance(0.1) and len(m.sources()) < 4:
                ops = [g.op_add_source(m)]
            else:
                ops = [g.op_add_comp(m)]
        elif grp == "edit":
            if prop == "C09" and R.chance(0.65):
                e = g.op_near_limits(m)
                ops = [e]
                if e and m.phase_conf.get(e["name"]):
                    # change_comp resets the phase configuration: put it back
                    ops.append({"op": "set_comp_phases", "name": e["name"], "conf": copy.deepcopy(m.phase_conf[e["name"]])})
                if e:
                    ops.append(make_observe(g, m, cfg))
            elif m.mux() is not None and R.chance(0.2):
                ops = (g.ops_rename_above_then_unlink(m) if R.chance(0.4) else []) or g.ops_rail_handover(m) or [g.op_change(m)]
                ops.append(make_observe(g, m, cfg))
            else:
                ops = [R.wpick([(g.op_change, 3), (g.op_del, 2), (g.op_move, 1.5)])(m)]
            if g.pending:
                ops += g.pending
                g.pending = []
        elif grp == "reject":
            classes = g.reject_classes(m)
            k = len(classes) if cfg.get("all_rejects") else R.randint(1, 4)
            chosen = R.sample(classes, min(k, len(classes)))
            for j, (cls, op) in enumerate(chosen):
                op["cls"] = cls
                if j == len(chosen) - 1:
                    op["probe_full"] = True
                ops.append(op)
        elif grp == "phase":
            if not m.sys_phases or R.chance(0.15):
                if m.sys_phases and R.chance(0.5):
                    # clear component configurations first (mostly), then the system phases
                    if R.chance(0.7):
                        for n in [x for x in m.order if m.phase_conf[x]]:
                            ops.append(g.op_comp_phases(m, name=n, clear=True))
                    ops.append(g.op_sys_phases(m, clear=True))
                    ops.append(make_observe(g, m, cfg))
                else:
                    ops.append(g.op_sys_phases(m))
            elif prop in ("C06", "C04") and R.chance(0.12):
                ops = g.ops_sleeper_overload(m)
            else:
                e = g.op_comp_phases(m, clear=R.chance(0.15))
                ops.append(e)
                if e and isinstance(e.get("conf"), dict) and e["conf"] and R.chance(0.15):
                    # the caller hands the very same dict object to a second load
                    k0 = m.kind(e["name"])
                    twins = [n for n in m.order if n != e["name"] and m.kind(n) == k0]
                    if twins:
                        e["share_id"] = "d%d" % i
                        ops.append({"op": "set_comp_phases", "name": R.pick(twins), "conf": copy.deepcopy(e["conf"]), "share_id": e["share_id"]})
        elif grp == "domfault":
            ops = [g.op_domfault(m)]
        elif grp == "analyse":
            ops = [g.op_analyse(m)]
        elif grp == "restart":
            ops = [{"op": "restart", "replace": True}]
            if R.chance(0.12):
                # the file comes from the 1.0 format: no 'groups' / 'rails' sections
                ops = [{"op": "restart", "replace": True, "old_format": True}]
        elif grp == "observe":
            ops = [make_observe(g, m, cfg)]
            if m.mux() is not None and prop in ("C01", "C02", "C06", "C07", "C08", "C09") and R.chance(0.25):
                # all live/dead patterns of the mux inputs, judged by this property's clauses
                ops.append({"op": "mux_patterns"})
        for op in ops:
            if emit(op):
                yield op
    op = make_observe(g, sess.model, cfg)
    op["final"] = True
    emit(op)
    yield op


def make_observe(g, m, cfg):
    R = g.r
    op = g.flagform({"op": "observe", "ta": R.pick([25.0, 25.0, -40.0, 0.0, 60.0, 85.0]), "sh": R.randint(1, 10**6), "kw": dict(OBS_KW)})
    if cfg["focus"] == "C12" and R.chance(0.3):
        import sysloss

        parts = [int(x) for x in sysloss.__version__.split(".")[:3]]
        while len(parts) < 3:
            parts.append(0)
        ma, mi, pa = parts
        newer = ["%d.%d.%d" % (ma, mi, pa + 1), "%d.%d.0" % (ma, mi + 1), "%d.0.0" % (ma + 1), "%d.%d.%d" % (ma, mi + 10, 0),
                 "%d.%d.%d.post1" % (ma, mi, pa), "%d.%d.%d+local.1" % (ma, mi, pa), "%d.%d.%drc1" % (ma, mi, pa + 1)]
        older = ["%d.%d.%d" % (ma, mi, pa), "1.0.0", "%d.%d.%d" % (ma, max(mi - 1, 0), 99) if mi > 0 else "0.9.0", "%d.%d.%d" % (max(ma - 1, 0), 99, 0) if ma > 0 else "0.1.0"]
        if R.chance(0.5):
            op["skew"] = {"dir": "newer", "version": R.pick(newer)}
            if R.chance(0.4):
                op["skew"]["garble"] = R.pick(["type", "params", "section"])
        else:
            op["skew"] = {"dir": "older", "version": R.pick(older)}
    if cfg["focus"] in ("C01", "C02") and R.chance(0.15):
        # caller-chosen tolerances: the table must be converged to what was asked
        op["kw"]["vtol"] = 10.0 ** R.randint(-8, -3)
        op["kw"]["itol"] = 10.0 ** R.randint(-8, -3)
    if cfg["focus"] == "C06" and R.chance(0.12):
        # a small iteration budget: the call either raises RuntimeError or every
        # phase of the returned table is converged
        op["kw"]["maxiter"] = R.pick([1, 2, 3, 5, 10, 20])
    if cfg["focus"] == "C19":
        op["render"] = [g.op_analysis_of(m, R.pick(["make_diag", "make_hdiag"])) for _ in range(R.randint(1, 2))]
        for rop in op["render"]:
            rop.pop("twice", None)
            if R.chance(0.03) or cfg["names"] == "dot":
                rop["real_dot"] = True
    return op
