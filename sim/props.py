"""Per-property metadata: level, non-trivial rule, rare-condition probes."""

HASH_SENSITIVE = {"C08"}

_TBL = "a solved table counts as non-trivial when it has >= 3 component rows, >= 1 non-zero current and depth >= 2; distinct by (anonymised shape, parameter-form set, supply polarities, phase count)"

PROPS = {
    "C01": {"level": "exploration", "rule": "seeded sessions (build/edit/phase/domain-fault/restart ops) solved at observation points; every component row is re-evaluated with the reference law from its own (Vin, Iout) and checked against its neighbours; " + _TBL,
            "probes": ["interval_rows", "dead_rows", "sleep_rows", "restart_replaced_sut"]},
    "C02": {"level": "exploration", "rule": "as C01 with rt>0, loss-mode loads, random ta, phases and sign-flipped parameters; per-row accounting and per-phase system conservation; " + _TBL,
            "probes": ["dead_rows", "sleep_rows"]},
    "C03": {"level": "exploration", "rule": "modest / stress / micro run classes with random vtol, itol, maxiter; the sweep monitor recomputes the convergence predicate on the returned iterates; non-trivial = a stress or micro call; distinct by (class, overloaded kind, load kind, knob bucket, outcome)",
            "probes": ["c03_outcome:table", "c03_outcome:RuntimeError", "c03_outcome:ValueError", "c03_modest_calls", "c03_micro_calls"]},
    "C04": {"level": "fault_enumeration", "rule": "for the tree reached by a seeded session, every structurally distinct kill position x kill kind (source 0 V; source/converter/regulator/switch/mux inactive in a phase; regulator drop-out to 0 V) is injected in turn and solved; non-trivial = kill with >= 2 levels below it and >= 1 load that would draw current; distinct by (kill kind, depth, kinds below)",
            "probes": ["kill:source0", "kill:sleep", "kill:dropout", "dead_rows", "sleep_rows"]},
    "C05": {"level": "fault_enumeration", "rule": "every run grows a PMux with 1-4 inputs and then visits all 2^n live/dead patterns of its inputs (0 V sources, phase-inactive inputs), each followed by solve(); non-trivial = pattern with selected index >= 1, inputs below different sources, or per-input rs; distinct by (n, pattern, selected, input kinds)",
            "probes": ["mux_selected>=1", "mux_all_dead", "mux_list_rs", "mux_inputs_diff_sources"]},
    "C06": {"level": "exploration", "rule": "sessions defining 2-4 phases with per-component configurations that are re-configured and cleared; all-phase, single-phase and unknown-phase solves; non-trivial = table with >= 2 phases in which >= 1 component behaves differently; " + _TBL,
            "probes": ["c06_slices", "sleep_rows"]},
    "C07": {"level": "exploration", "rule": "multi-source sessions with and without mux/phases, energy=True; aggregates recomputed from the table's own rows and the model's attribution; " + _TBL,
            "probes": ["tables_checked"]},
    "C08": {"level": "exploration", "rule": "sessions assigning rails; rail_rep() recomputed from the solve() table per (phase, rail); non-trivial = rail with >= 2 consumers or a warning; run under several hash seeds",
            "probes": ["rail_rows_checked", "rail_nontrivial"]},
    "C09": {"level": "exploration", "rule": "limits placed around solved values (inside/outside/exactly on/negative); expected token set recomputed from the row's own cells; non-trivial = row with a non-default limit near its value; " + _TBL,
            "probes": ["c09_near_limit_rows", "c09_boundary_skips"]},
    "C12": {"level": "exploration", "rule": "save -> from_file at observation points and as mid-session restarts that replace the SUT; reports compared exactly, results at twin tolerance; version skew faults; non-trivial = system with >= 4 kinds; distinct by kind set x (phases, rails, mux)",
            "probes": ["c12_roundtrips", "restart_replaced_sut", "version_skew_newer", "version_skew_older"]},
    "C13": {"level": "fault_enumeration", "rule": "per kind, parameter sets written as TOML to the simulated disk and loaded with Kind.from_file; then every line-boundary tear, lost section header and value-type flip of the stored file is enumerated; non-trivial = file with an optional key absent or a table parameter; distinct by (kind, key set, damage kind)",
            "probes": []},
    "C14": {"level": "exploration", "rule": "edit-heavy sessions (half of the edits meant to be rejected); structure invariants read from tree()/params()/save() after every operation; non-trivial = a session with >= 5 accepted and >= 3 rejected edits (distinct by the (op kind, outcome) sequence digest), or a rejected call on a state with >= 4 components (distinct by rejection class x target kind)",
            "probes": ["edit_ok", "edit_rej"]},
    "C15": {"level": "fault_enumeration", "rule": "at states reached by seeded sessions, instances of every rejection class constructible there are issued (plus warnings-as-errors); reports before == after and SUT == Shadow; non-trivial = rejected call on a state with >= 4 components; distinct by (rejection class, target kind)",
            "probes": ["c15_full_probes", "warnings_as_errors"]},
    "C16": {"level": "exploration", "rule": "successful-edit-heavy sessions compared with canonical and shuffled from-scratch builds of the reference model's structure; non-trivial = table as below; " + _TBL,
            "probes": ["c16_fresh_compares"]},
    "C17": {"level": "fault_enumeration", "rule": "analysis-heavy sessions with disk/subprocess/clock faults; batt_life with an exception injected at every callback index k; non-trivial = a session interleaving >= 4 kinds of analyses (distinct by the interleaving digest) or a batt_life callback fault at k > 1 (distinct by battery model kind x k bucket x exception kind)",
            "probes": ["c17_full_probes"]},
    "C18": {"level": "exploration", "rule": "battery sessions against scripted peers; the recorded peer history is checked call by call against a from-scratch solve with the last returned battery state; non-trivial = log with >= 3 rows",
            "probes": []},
    "C19": {"level": "exploration", "rule": "renders captured at the pydot seam; node/edge/cluster sets and effective attributes recomputed from the model; heat labels and colours from the solved losses; non-trivial = diagram with >= 2 groups, an override or >= 3 distinct losses",
            "probes": []},
}


COMMON_PROBES = ["sparse_edits_without_reports", "file_built_components", "restart_replaced_sut", "pristine_twin_compares"]
for _k, _v in PROPS.items():
    if _k != "C13":
        _v["probes"] = list(_v.get("probes", [])) + [p for p in COMMON_PROBES if p not in _v.get("probes", []) and not (p == "restart_replaced_sut" and _k in ("C16", "C17", "C03", "C04", "C05", "C18")) and not (p == "pristine_twin_compares" and _k not in ("C15", "C17"))]
PROPS["C12"]["probes"] += ["mux_inputs_collapsed"]
PROPS["C16"]["probes"] += ["mux_inputs_collapsed", "c16_report_checks"]
PROPS["C05"]["probes"] += ["mux_patterns_visited"]
PROPS["C18"]["probes"] += ["c18_logs_checked", "c18_nontrivial", "c18_clock_pairs", "c18_non_source"]
PROPS["C19"]["probes"] += ["c19_renders_checked", "c19_real_dot_renders", "c19_heat_3_losses"]
PROPS["C17"]["probes"] += ["peer_exception_at_k", "peer_keyboard_interrupt", "peer_system_exit"]

# evaluations = the number of judged cases of the property (a measured counter),
# sessions are reported separately
CASE_COUNTER = {
    "C01": "tables_checked", "C02": "tables_checked", "C03": "c03_calls", "C04": "tables_checked",
    "C05": "tables_checked", "C06": "tables_checked", "C07": "tables_checked", "C08": "rail_rows_checked",
    "C09": "tables_checked", "C12": "c12_roundtrips", "C14": "edits", "C15": "edit_rej",
    "C16": "c16_fresh_compares", "C17": "analyses", "C18": "c18_logs_checked", "C19": "c19_renders_checked",
}
