"""C19: the graph handed to the renderer against the reference model."""
import json
import re
import subprocess

from . import observe as O
from .analyses import _diag_config

DOT_KEYWORDS = ("graph", "subgraph", "digraph", "node", "edge", "strict")
COLD = (0x21, 0x20, 0xFF)
WARM = (0xFF, 0x12, 0x10)
SI = {"p": 1e-12, "n": 1e-9, "u": 1e-6, "m": 1e-3, "": 1.0, "k": 1e3, "M": 1e6}


def unq(s):
    if isinstance(s, str) and len(s) >= 2 and s[0] == '"' and s[-1] == '"':
        return s[1:-1].replace('\\"', '"')
    return s


def special_name(n):
    return ":" in n or n.lower() in DOT_KEYWORDS or '"' in n or "\\" in n


def parse_loss_text(t):
    m = re.match(r"^([0-9.+\-eE]+)([pnumkM]?)W$", t.strip())
    if not m:
        return None
    try:
        return float(m.group(1)) * SI[m.group(2)]
    except ValueError:
        return None


def collect(g):
    """(nodes, edges, clusters) of a pydot graph object: nodes = [(name,
    attrs, cluster name or None)], edges = [(src, dst, attrs)]."""
    nodes, edges, clusters = [], [], {}
    for n in g.get_nodes():
        nodes.append((unq(n.get_name()), {k: unq(v) for k, v in n.get_attributes().items()}, None))
    for sg in g.get_subgraphs():
        cname = unq(sg.get_name())
        clusters[cname] = {k: unq(v) for k, v in sg.get_attributes().items()}
        for n in sg.get_nodes():
            nodes.append((unq(n.get_name()), {k: unq(v) for k, v in n.get_attributes().items()}, cname))
        for e in sg.get_edges():
            edges.append((unq(e.get_source()), unq(e.get_destination()), dict(e.get_attributes())))
    for e in g.get_edges():
        edges.append((unq(e.get_source()), unq(e.get_destination()), {k: unq(v) for k, v in e.get_attributes().items()}))
    return nodes, edges, clusters


def check_render(sess, op):
    m = sess.model
    w = sess.w
    if not w.graphs:
        return
    g = w.graphs[-1]
    heat = op["op"] == "make_hdiag"
    grouping = op.get("group", True)
    import copy
    from . import world as W

    # the library's defaults are what the documentation says, every time
    now = w.D.get_conf()
    if now != W.PRISTINE_CONF:
        sess.fail("C19", "default-configuration-unchanged", "get_conf() no longer returns the default configuration: %s" % _first_conf_diff(W.PRISTINE_CONF, now))
    cfg = _diag_config(sess, op.get("config")) or copy.deepcopy(W.PRISTINE_CONF)
    sig = "dot-special-name" if any(special_name(n) for n in m.order) else ""

    def fail(clause, detail):
        sess.fail("C19", clause, detail, sig=sig)

    nodes, edges, clusters = collect(g)
    # the legend is the one node carrying a colour gradient; its identifier
    # must not be the name of a component (dot identifiers are compared
    # unquoted: "Scale" and Scale are one node)
    legend = [n for n, a, _ in nodes if "gradientangle" in a]
    if len(legend) != (1 if heat else 0):
        fail("one-node-per-component", "%d legend nodes in a %s diagram" % (len(legend), "heat" if heat else "block"))
    if heat and legend[0] in m.order:
        fail("one-node-per-component", "the legend uses the identifier %r, which is a component's name: dot merges the two nodes" % (legend[0],))
    want_nodes = sorted(m.order) + (["<legend>"] if heat else [])
    got_nodes = sorted(n for n, a, _ in nodes if "gradientangle" not in a) + (["<legend>"] if legend else [])
    if got_nodes != want_nodes:
        fail("one-node-per-component", "nodes %s, components %s" % (got_nodes[:12], want_nodes[:12]))
    want_edges = sorted(m.links())
    got_edges = sorted((a, b) for a, b, _ in edges)
    if got_edges != want_edges:
        fail("one-edge-per-link", "edges %s, links %s" % (got_edges[:10], want_edges[:10]))
    # the serialised text, read back the way the dot language reads it
    text = g.to_string()
    _check_text(sess, m, text, heat, fail)
    # clusters
    groups = sorted(set(x for x in m.groups.values() if x))
    if grouping and groups:
        if sorted(clusters) != sorted("cluster_" + x for x in groups):
            fail("clusters-are-groups", "clusters %s, groups %s" % (sorted(clusters), groups))
        for n, a_, c in nodes:
            if "gradientangle" in a_:
                want = None
            else:
                want = ("cluster_" + m.groups[n]) if m.groups[n] else None
            if c != want:
                fail("cluster-membership", "%s drawn in %r, group is %r" % (n, c, m.groups.get(n)))
        for gname in groups:
            want = dict(cfg["cluster"]["default"])
            want.update(cfg["cluster"].get(gname, {}))
            want["label"] = gname
            if clusters["cluster_" + gname] != want:
                fail("cluster-attributes", "cluster %r attrs %s want %s" % (gname, clusters["cluster_" + gname], want))
    else:
        if clusters:
            fail("no-clusters-when-ungrouped", "clusters %s with group=%r groups=%s" % (sorted(clusters), grouping, groups))
    # graph / edge attributes
    gattr = {k: unq(v) for k, v in g.get_attributes().items()}
    wantg = dict(cfg["graph"])
    wantg["label"] = m.sysname + (" - Loss heat map" if heat else "")
    if gattr != wantg:
        fail("graph-attributes", "graph attrs %s want %s" % (gattr, wantg))
    for a, b, attrs in edges:
        if attrs != dict(cfg["edge"]):
            fail("edge-attributes", "edge %s->%s attrs %s want %s" % (a, b, attrs, cfg["edge"]))
    # node attributes: default <- kind <- name
    loss = None
    if heat:
        loss = _weighted_loss(sess)
        if loss is None:
            return
        mx = max(loss.values()) if loss else 0.0
    for n, attrs, _ in nodes:
        if "gradientangle" in attrs:
            continue
        want = dict(cfg["node"]["default"])
        want.update(cfg["node"].get(m.kind(n), {}))
        want.update(cfg["node"].get(n, {}))
        if heat:
            got = dict(attrs)
            label = got.pop("label", None)
            fill = got.pop("fillcolor", None)
            want.pop("fillcolor", None)
            want["fontcolor"] = "silver"
            if got != want:
                fail("node-attributes", "%s attrs %s want %s" % (n, got, want))
            if label is None or not label.startswith(n + "\n"):
                fail("heat-label", "%s label %r" % (n, label))
            val = parse_loss_text(label[len(n) + 1:])
            L = loss[n]
            if val is None or abs(val - L) > 5e-3 * abs(L) + 1e-30:
                fail("heat-label-loss", "%s label %r, duration-weighted loss %r" % (n, label, L))
            mix = L / mx if mx > 0 else 0.0
            rgb = _hex(fill)
            if rgb is None:
                fail("heat-colour", "%s fillcolor %r" % (n, fill))
            wantrgb = tuple((1 - mix) * c + mix * h for c, h in zip(COLD, WARM))
            if any(abs(a - b) > 1.01 for a, b in zip(rgb, wantrgb)):
                fail("heat-colour", "%s fillcolor %r for loss %r of max %r (want about %s)" % (n, fill, L, mx, tuple(round(x) for x in wantrgb)))
            if L == mx and mx > 0 and rgb != WARM:
                fail("heat-colour", "largest loss %s is %r, not fully warm" % (n, fill))
            if L == 0.0 and rgb != COLD:
                fail("heat-colour", "zero loss %s is %r, not fully cold" % (n, fill))
        else:
            if attrs != want:
                fail("node-attributes", "%s attrs %s want %s (default<-kind<-name)" % (n, attrs, want))
    if heat:
        sc = [a for n, a, _ in nodes if "gradientangle" in a]
        lab = sc[0].get("label", "")
        first = lab.strip("{}").split("|")[0]
        val = parse_loss_text(first)
        if val is None or abs(val - mx) > 5e-3 * abs(mx) + 1e-30:
            fail("heat-legend", "legend %r, maximum loss %r" % (lab, mx))
        # colours ordered as the losses
        order = sorted(((loss[n], _hex(a.get("fillcolor"))[0]) for n, a, _ in nodes if "gradientangle" not in a))
        for (l1, r1), (l2, r2) in zip(order, order[1:]):
            if l2 > l1 and r2 < r1:
                fail("heat-colour-order", "loss %r redder than loss %r" % (l1, l2))
        if len(set(round(v, 12) for v in loss.values())) >= 3:
            sess.stats["c19_heat_3_losses"] += 1
    sess.stats["c19_renders_checked"] += 1
    ov = op.get("config") or {}
    nontriv = len(groups) >= 2 or bool(ov.get("node")) or (heat and len(set(loss.values())) >= 3)
    if nontriv:
        sess.nontrivial.add(("render", m.shape(), tuple(sorted(groups)) if grouping else (), tuple(sorted((ov.get("node") or {}).keys())) != (), heat))
    if op.get("real_dot"):
        _real_dot(sess, m, text, heat, grouping, fail)


def _first_conf_diff(a, b, path=""):
    if isinstance(a, dict) and isinstance(b, dict):
        for k in sorted(set(a) | set(b)):
            if a.get(k) != b.get(k):
                return _first_conf_diff(a.get(k), b.get(k), path + "/" + str(k))
    return "%s: %r -> %r" % (path, a, b)


def _hex(s):
    if not isinstance(s, str) or not re.match(r"^#[0-9a-fA-F]{6}$", s):
        return None
    return (int(s[1:3], 16), int(s[3:5], 16), int(s[5:7], 16))


def _weighted_loss(sess):
    m = sess.model
    r = sess._guard(lambda: sess.sut.solve())
    if r[0] != "ok":
        return None
    t = O.Table(r[1])
    if m.sys_phases:
        tot = sum(m.sys_phases.values())
        out = {}
        for n in m.order:
            out[n] = sum(t.comp[ph][n]["Loss (W)"] * m.sys_phases[ph] for ph in t.phases) / tot
        return out
    return {n: t.comp[""][n]["Loss (W)"] for n in m.order}


def _check_text(sess, m, text, heat, fail):
    """Read the serialised dot text with pydot's own parser (pure python): the
    node statements and edges must name exactly the components and links."""
    import pydot

    try:
        gs = pydot.graph_from_dot_data(text)
    except Exception as e:  # noqa
        gs = None
    if not gs:
        fail("dot-text-parses", "pydot cannot parse the emitted dot text")
    nodes, edges, _ = collect(gs[0])
    names = sorted(n for n, a, _ in nodes if (n not in ("node", "edge", "graph") or n in m.order) and "gradientangle" not in a)
    # default-attribute statements come back as pseudo nodes named node/edge/graph
    want = sorted(m.order)
    if names != want:
        fail("dot-text-one-node-per-component", "dot text declares nodes %s, components %s" % (names[:12], want[:12]))
    got_e = sorted((a.split(":")[0] if False else a, b) for a, b, _ in edges)
    if got_e != sorted(m.links()):
        fail("dot-text-one-edge-per-link", "dot text edges %s, links %s" % (got_e[:8], sorted(m.links())[:8]))


def _real_dot(sess, m, text, heat, grouping, fail):
    """Graphviz's own view of the emitted text (dot -Tjson in a subprocess)."""
    try:
        p = subprocess.run(["/usr/bin/dot", "-Tjson"], input=text.encode(), capture_output=True, timeout=30)
    except Exception as e:  # noqa
        sess.stats["real_dot_unavailable"] += 1
        return
    if p.returncode != 0:
        fail("graphviz-accepts", "dot exit %d: %s" % (p.returncode, p.stderr.decode()[:200]))
    doc = json.loads(p.stdout.decode())
    objs = doc.get("objects", [])
    names = sorted(o["name"] for o in objs if "nodes" not in o and "_gvid" in o and "subgraphs" not in o and "gradientangle" not in o)
    want = sorted(m.order)
    nleg = sum(1 for o in objs if "nodes" not in o and "subgraphs" not in o and "gradientangle" in o)
    if nleg != (1 if heat else 0):
        fail("graphviz-one-node-per-component", "graphviz sees %d legend nodes" % nleg)
    if names != want:
        fail("graphviz-one-node-per-component", "graphviz sees nodes %s, components %s" % (names[:12], want[:12]))
    byid = {o["_gvid"]: o["name"] for o in objs}
    ed = sorted((byid[e["tail"]], byid[e["head"]]) for e in doc.get("edges", []))
    if ed != sorted(m.links()):
        fail("graphviz-one-edge-per-link", "graphviz sees edges %s, links %s" % (ed[:8], sorted(m.links())[:8]))
    if grouping:
        for o in objs:
            if o["name"].startswith("cluster_") and ("nodes" in o or "subgraphs" in o):
                members = sorted(byid[i] for i in o.get("nodes", []))
                gname = o["name"][len("cluster_"):]
                wantm = sorted(n for n in m.order if m.groups[n] == gname)
                if members != wantm:
                    fail("graphviz-cluster-membership", "cluster %r holds %s want %s" % (gname, members, wantm))
    sess.stats["c19_real_dot_renders"] += 1
