def check_render(sess, op):
    pass
