"""Deterministic session simulator for geddy11/sysloss (see /verif/DESIGN.md)."""
