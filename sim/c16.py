def check_reports(sess):
    pass
