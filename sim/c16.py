"""C16 (last clause): params(), limits() and phases() show for each component
the parameters, non-default limits and per-phase values it was configured
with (tables as 'interp')."""
from . import observe as O
from .spec import APPLICABLE, LIMITS_DEFAULT, LOADS, LIST_PHASE_KINDS, is_table

COL = {
    "vo": "vo (V)", "vdrop": "vdrop (V)", "rs": "rs (Ohm)", "rt": "rt (°C/W)", "eff": "eff (%)", "ig": "ig (A)",
    "iq": "iq (A)", "ii": "ii (A)", "iis": "iis (A)", "pwr": "pwr (W)", "pwrs": "pwrs (W)", "loss": "loss",
}
LIMCOL = {"vi": "V", "vo": "V", "vd": "V", "ii": "A", "io": "A", "pi": "W", "po": "W", "pl": "W", "tr": "°C", "tp": "°C"}


def _same(cell, val):
    if is_table(val):
        return cell == "interp"
    if isinstance(val, bool):
        return cell == val
    if isinstance(val, list):
        return cell == val or cell == [abs(x) for x in val]
    return cell == abs(val) or cell == val


def check_reports(sess):
    m = sess.model
    sut = sess.sut
    r = sess._guard(lambda: (O.canon_params(sut.params(limits=True), mask=False), O.canon_params(sut.limits(), mask=False), O.canon_phases(sut.phases())))
    if r[0] != "ok":
        sess.fail("C16", "report-succeeds", "params()/limits()/phases() raised %s(%s)" % (r[1], r[2]))
    par, lim, phs = r[1]
    if set(par["rows"]) != set(m.comps) or par["n"] != len(m.comps):
        sess.fail("C16", "params-lists-live", "params() rows %s vs components %d" % (sorted(set(par["rows"]) ^ set(m.comps))[:6], len(m.comps)))
    if set(lim["rows"]) != set(m.comps) or lim["n"] != len(m.comps):
        sess.fail("C16", "limits-lists-live", "limits() rows differ from the live components")
    for n in m.order:
        spec = m.comps[n]
        k = spec["kind"]
        row = par["rows"][n]
        mosfet = k == "Rectifier" and not (is_table(spec["p"].get("vdrop")) or spec["p"].get("vdrop", 0.0) != 0.0)
        for key, val in spec["p"].items():
            if k == "Rectifier":
                if mosfet and key == "vdrop":
                    continue
                if not mosfet and key in ("rs", "ig", "iq"):
                    continue  # ignored in diode mode
            if k == "LinReg" and key == "iq":
                if (is_table(val) or val != 0.0) and not (row.get("ig (A)") == "interp" if is_table(val) else row.get("ig (A)") in (val, abs(val))):
                    sess.fail("C16", "params-show-configured", "%s (LinReg): ig cell %r, configured through the deprecated iq=%r" % (n, row.get("ig (A)"), val))
                continue
            if k == "LinReg" and key == "ig" and "iq" in spec["p"] and (is_table(spec["p"]["iq"]) or spec["p"]["iq"] != 0.0):
                continue
            if not _same(row.get(COL[key]), val):
                sess.fail("C16", "params-show-configured", "%s (%s): %s cell %r, configured %r" % (n, k, COL[key], row.get(COL[key]), val))
        for key in APPLICABLE[k]:
            want = (spec.get("lim") or {}).get(key)
            c1 = row.get("%s limit (%s)" % (key, LIMCOL[key]))
            c2 = lim["rows"][n].get("%s  (%s)" % (key, LIMCOL[key]))
            if want is None or list(want) == LIMITS_DEFAULT[key]:
                want = ""
            for cell, rep in ((c1, "params(limits=True)"), (c2, "limits()")):
                if cell != want and not (want != "" and cell == list(want)):
                    sess.fail("C16", "limits-show-configured", "%s (%s): %s %s cell %r, configured %r" % (n, k, rep, key, cell, want))
    if m.sys_phases:
        if phs is None:
            sess.fail("C16", "phases-report", "phases() returned None with phases defined")
        names = set(x[0] for x in phs["rows"])
        want_names = set(m.order)
        if names != want_names:
            sess.fail("C16", "phases-lists-live", "phases() components %s" % sorted(names ^ want_names)[:6])
        order = list(m.sys_phases.keys())
        for n in m.order:
            k = m.kind(n)
            conf = m.phase_conf[n]
            if k in ("RLoss", "VLoss", "Rectifier") or not conf:
                want = ["N/A"]
            else:
                want = [p for p in order if p in conf] or ["N/A"]
            got = [x[1] for x in phs["rows"] if x[0] == n]
            if sorted(got) != sorted(want):
                sess.fail("C16", "phases-show-configured", "%s (%s): active phases %s, configured %s" % (n, k, got, want))
            if k in LOADS:
                col = {"PLoad": "pwr (W)", "ILoad": "ii (A)", "RLoad": "rs (Ohm)"}[k]
                key = {"PLoad": "pwr", "ILoad": "ii", "RLoad": "rs"}[k]
                for p in want:
                    cell = phs["rows"][(n, p)][col]
                    val = abs(m.comps[n]["p"][key]) if p == "N/A" else conf[p]
                    if cell != val and cell != abs(val):
                        sess.fail("C16", "phases-show-values", "%s phase %s: %s cell %r, configured %r" % (n, p, col, cell, val))
    elif phs is not None:
        sess.fail("C16", "phases-report", "phases() returned a table without system phases")
    sess.stats["c16_report_checks"] += 1
