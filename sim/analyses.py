"""Analysis, observation and restart operations of a session."""
import copy
import json

from . import observe as O
from . import checks
from .session import Stop, HarnessError, _opsum, _short


def _diag_config(sess, spec):
    """Build a diagram configuration dict from the recorded overrides."""
    if not spec:
        return {}
    conf = sess.w.D.get_conf()
    for sect in ("graph", "edge"):
        for k, v in spec.get(sect, {}).items():
            conf[sect][k] = v
    for key, attrs in spec.get("node", {}).items():
        if key == "__default_override__":
            conf["node"]["default"].update(attrs)
        else:
            conf["node"][key] = dict(attrs)
    for key, attrs in spec.get("cluster", {}).items():
        conf["cluster"][key] = dict(attrs)
    rm = spec.get("__remove__")
    if rm:
        sect, key = rm
        target = conf["node"]["default"] if sect == "node" else conf[sect]
        if target.pop(key, None) is not None:
            sess.stats["config_without_a_default_key"] += 1
    return conf


def _call_analysis(sess, sysobj, op, passed):
    """Invoke one analysis on sysobj; `passed` collects (label, object, deep copy)."""
    k = op["op"]
    w = sess.w
    if k in ("solve", "rail_rep"):
        kw = copy.deepcopy(op.get("kw", {}))
        if "tags" in kw:
            passed.append(("tags", kw["tags"], copy.deepcopy(kw["tags"])))
        df = getattr(sysobj, k)(**kw)
        return O.canon_table(df)
    if k == "params":
        return O.canon_params(sysobj.params(limits=op.get("limits", False)))
    if k == "limits":
        return O.canon_params(sysobj.limits())
    if k == "phases":
        return O.canon_phases(sysobj.phases())
    if k == "tree":
        return O.tree_text(w, sysobj, op.get("name", ""))
    if k == "save":
        sysobj.save(op["fname"], indent=op.get("indent", 4))
        return w.disk.files.get(op["fname"])
    if k in ("make_diag", "make_hdiag"):
        conf = _diag_config(sess, op.get("config"))
        passed.append(("config", conf, copy.deepcopy(conf)))
        fn = getattr(w.D, k)
        n0 = len(w.graphs)
        res = fn(sysobj, fname=op.get("fname"), group=op.get("group", True), config=conf)
        g = w.graphs[n0:] if len(w.graphs) > n0 else []
        return ("img" if res is not None else None, g[-1].to_string() if g else None)
    if k == "plot_interp":
        fig = sysobj.plot_interp(op["name"], plot3d=op.get("plot3d", False), inpdata=op.get("inpdata", True))
        import matplotlib.pyplot as plt

        plt.close("all")
        return "fig" if fig is not None else None
    if k == "batt_life":
        from .peer import run_batt_life

        return run_batt_life(sess, sysobj, op, passed)
    raise HarnessError("unknown analysis " + k)


def apply_analysis(sess, op):
    k = op["op"]
    w = sess.w
    sess.had_analysis = True
    fault = op.get("fault")
    if fault:
        if fault["on"] == "disk":
            w.disk.fault = fault
        elif fault["on"] == "proc":
            w.proc.fault = fault
    passed = []
    results = []
    try:
        for rep in range(2 if op.get("twice") else 1):
            res = sess._guard(lambda: _call_analysis(sess, sess.sut, op, passed))
            results.append(res)
    finally:
        if fault:
            for dev in (w.disk, w.proc):
                for kk, vv in getattr(dev, "fired_counts", {}).items():
                    pass
            w.disk.fault = None
            w.proc.fault = None
    sess.outcomes.append(results[0][0] if results[0][0] == "ok" else "exc:" + results[0][1])
    sess.interleave.append((k, results[0][0]))
    sess.stats["analysis:" + k] += 1
    if results[0][0] != "ok":
        sess.stats["analysis_raised:" + k + ":" + results[0][1]] += 1
    E = sess.enabled
    if "C17" in E and k in ("make_diag", "make_hdiag", "solve", "rail_rep", "batt_life"):
        from . import world as W
        from .spec import LIMITS_DEFAULT as DOC_LIMITS

        if w.D.get_conf() != W.PRISTINE_CONF:
            sess.fail("C17", "analysis-changed-library-defaults", "%s %s: get_conf() no longer returns the default configuration" % (k, _opsum(op)))
        if w.C.LIMITS_DEFAULT != DOC_LIMITS:
            sess.fail("C17", "analysis-changed-library-defaults", "%s %s: components.LIMITS_DEFAULT changed to %s" % (k, _opsum(op), {a: b for a, b in w.C.LIMITS_DEFAULT.items() if DOC_LIMITS.get(a) != b}))
    if "C17" in E:
        # objects passed to the analysis are unchanged
        for label, obj, before in passed:
            if obj != before:
                sess.fail("C17", "passed-object-mutated", "%s %s: %s changed from %s to %s" % (k, _opsum(op), label, _short(before), _short(obj)))
        # repeating returns an identical result
        if len(results) == 2 and not fault and k not in ("batt_life",):
            a, b = results
            same = a == b
            if same is False and a[0] == "ok" and b[0] == "ok" and k in ("solve", "rail_rep"):
                same = O.diff_canon(a[1], b[1], rtol=0.0, atol=0.0, eff_atol=0.0) is None
            if not same:
                sess.fail("C17", "repeat-identical", "%s twice: %s vs %s" % (k, _short(a), _short(b)))
    # the system is unchanged: snapshot against the previous one and the shadow
    snap = sess.snapshot(sess.sut)
    d = sess.snap_diff(sess.prev_snap, snap) if sess.prev_snap is not None else None
    if d:
        if "C17" in E:
            sess.fail("C17", "analysis-changed-state", "%s %s: %s" % (k, _opsum(op), d))
        sess._twin_fail(d, op)
    if not sess.twin_lost:
        shsnap = sess.snapshot(sess.shadow)
        d = sess.snap_diff(snap, shsnap)
        if d:
            sess._twin_fail(d, op)
    sess.prev_snap = snap
    if "C17" in E and op.get("probe_full", True):
        if sess.last_full is not None and not sess.dirty:
            full = sess.full_obs(sess.sut)
            d = sess.full_diff(sess.last_full, full)
            if d:
                sess.fail("C17", "analysis-changed-later-result", "after %s %s: %s" % (k, _opsum(op), d))
            sess.last_full = full
            sess.stats["c17_full_probes"] += 1
        else:
            sess.last_full = sess.full_obs(sess.sut)
            sess.dirty = False
    if k == "batt_life":
        from .peer import check_batt_life

        check_batt_life(sess, op, results[0])
        if op.get("same_as_prev") and "C18" in E and getattr(sess, "prev_batt", None) is not None:
            if sess.prev_batt != results[0]:
                sess.fail("C18", "result-independent-of-clock", "batt_life under clock %r: %s vs %s" % (op.get("clock"), _short(results[0]), _short(sess.prev_batt)))
            sess.stats["c18_clock_pairs"] += 1
        sess.prev_batt = results[0]
    if k in ("make_diag", "make_hdiag") and "C19" in E and results[0][0] == "ok" and not fault:
        from .render import check_render

        check_render(sess, op)


def apply_restart(sess, op):
    """save -> drop the object -> from_file -> continue on the reloaded object."""
    w, S = sess.w, sess.w.S
    sess.had_restart = True
    # save() comes first: in a sparse run nothing has been reported since the
    # last edit, and the file must not depend on a report having been asked for
    r = sess._guard(lambda: sess.sut.save("restart.json"))
    if r[0] != "ok":
        sess.outcomes.append("exc:" + r[1])
        if "C16" in sess.enabled or "C12" in sess.enabled:
            sess.fail("C16" if "C16" in sess.enabled else "C12", "save-succeeds", "save() raised %r" % (r,))
        return
    if sess.prev_snap is None:
        sess.stats["save_before_any_report_since_last_edit"] += 1
        sess.prev_snap = sess.snapshot(sess.sut)
    before_snap = sess.prev_snap
    before_full = sess.full_obs(sess.sut) if "C12" in sess.enabled else None
    skew = op.get("skew")
    if skew:
        doc = json.loads(w.disk.files["restart.json"])
        doc["system"]["version"] = skew["version"]
        if skew.get("garble") and skew["dir"] == "newer":
            # a newer format: this release cannot make sense of the body
            ent = [k_ for k_ in doc if k_ != "system"]
            if skew["garble"] == "type":
                doc[ent[0]]["type"] = "SUPERSOURCE"
            elif skew["garble"] == "params":
                doc[ent[0]].pop("params", None)
            else:
                doc["future section"] = {"anything": 1}
            sess.stats["fault_fired:newer_file_unreadable_body"] += 1
        w.disk.files["skew.json"] = json.dumps(doc)
        r = sess._guard(lambda: S.System.from_file("skew.json"))
        sess.stats["fault_fired:version_skew_" + skew["dir"]] += 1
        if "C12" in sess.enabled:
            if skew["dir"] == "newer" and not (r[0] == "exc" and r[1] == "ValueError"):
                sess.fail("C12", "newer-version-refused", "file with version %s loaded: %s" % (skew["version"], _short(r)))
            if skew["dir"] == "older" and r[0] != "ok":
                sess.fail("C12", "older-version-loads", "file with version %s refused: %s" % (skew["version"], _short(r)))
    if op.get("old_format") and "C12" not in sess.enabled:
        # a file of the first format: no 'groups' and 'rails' sections; the
        # documented result is the same system with no groups and no rails
        doc = json.loads(w.disk.files["restart.json"])
        doc["system"].pop("groups", None)
        doc["system"].pop("rails", None)
        doc["system"]["version"] = "1.0.0"
        w.disk.files["restart.json"] = json.dumps(doc, indent=4)
        m = sess.model
        if any(m.groups.values()) or any(m.rails.values()):
            sess.twin_lost = True
        for n in m.order:
            m.groups[n] = ""
            m.rails[n] = ""
        sess.stats["fault_fired:old_format_file"] += 1
    r = sess._guard(lambda: S.System.from_file("restart.json"))
    sess.outcomes.append("ok" if r[0] == "ok" else "exc:" + r[1])
    sess.interleave.append(("restart", r[0]))
    if r[0] != "ok":
        if "C12" in sess.enabled:
            sess.fail("C12", "reload-succeeds", "from_file raised %s(%s)" % (r[1], r[2]))
        raise Stop()
    re = r[1]
    snap = sess.snapshot(re)
    if "C12" in sess.enabled:
        d = sess.snap_diff(before_snap, snap)
        if d:
            sess.fail("C12", "reloaded-reports-equal", d)
        full = sess.full_obs(re)
        d = sess.full_diff(before_full, full)
        if d:
            sess.fail("C12", "reloaded-results-equal", d)
        sess.stats["c12_roundtrips"] += 1
        m = sess.model
        kinds = set(m.kind(n) for n in m.order)
        if len(kinds) >= 4:
            sess.nontrivial.add(("rt", tuple(sorted(kinds)), bool(m.sys_phases), any(m.rails.values()), m.mux() is not None))
    else:
        # this run does not judge the round trip: the session simply continues
        # on the reloaded object and the model-based monitors see what it does;
        # the real-code twins are no longer comparable
        if sess.snap_diff(before_snap, snap):
            sess.twin_lost = True
            sess.stats["restart_changed_reports_in_non_C12_run"] += 1
    if op.get("replace", True):
        sess.sut_objs = None  # the reloaded system is made of the library's own objects
        sess.sut = re
        sess.stats["restart_replaced_sut"] += 1
        sess.dirty = True
    sess.prev_snap = snap


def apply_observe(sess, op):
    """Full observation point: solve + clause checkers + twins."""
    E = sess.enabled
    if sess.prev_snap is None:
        sess.prev_snap = sess.snapshot(sess.sut)
        sess.check_structure(sess.prev_snap)
    m = sess.model
    sut = sess.sut
    ta = op.get("ta", 25.0)
    sess.interleave.append(("observe", "ok"))
    sess.outcomes.append("ok")
    from .session import flag

    kw = {"energy": flag(True, op.get("flagform")), "ta": ta}
    kw.update(op.get("kw", {}))
    vt, it = kw.get("vtol", 1e-6), kw.get("itol", 1e-6)
    if kw.get("phase") and kw["phase"] not in m.sys_phases:
        # (only after shrinking dropped the set_sys_phases op) an unknown phase
        # is rejected with ValueError: that is C06's clause, nothing else to judge
        return
    sess.w.sweeps.reset()
    r = sess._guard(lambda: sut.solve(**kw))
    sess.stats["observe"] += 1
    if "C03" not in E:
        sess.stats["sweeps"] += sess.w.sweeps.fwd
    table = None
    if r[0] != "ok":
        sess.stats["observe_solve_raised:" + r[1]] += 1
        if r[1] not in ("RuntimeError", "ValueError"):
            if "C16" in E:
                sess.fail("C16", "solve-succeeds", "solve() raised %s(%s) after a successful edit history" % (r[1], r[2]))
            if "C03" in E:
                sig = ""
                if r[1] == "TypeError" and any(m.kind(n) == "Rectifier" and isinstance(m.comps[n]["p"].get("rs"), list) for n in m.order):
                    sig = "rectifier-rs-list"
                sess.fail("C03", "raises-only-documented", "solve() raised %s(%s)" % (r[1], r[2]), sig=sig)
            if "C05" in E and m.mux() is not None:
                sess.fail("C05", "mux-is-reported", "solve() raised %s(%s) on a system with a PMux instead of reporting it" % (r[1], r[2]))
        sl = op.get("sleeper")
        if sl and getattr(sess, "last_plain_solve_ok", False) and not op.get("kw") and r[1] in ("RuntimeError", "ValueError"):
            # the only thing added since a successful solve is a branch of its own
            # whose series element sleeps in the one phase where its load is heavy
            from .laws import is_active

            ok = all(x in m.comps for x in (sl["src"], sl["sleeper"], sl["load"]))
            ok = ok and m.kind(sl["src"]) == "Source" and m.comps[sl["src"]]["p"].get("rs") == 0.0 and not m.phase_conf[sl["src"]]
            deep = list(sl.get("deep") or [])
            ok = ok and all(x in m.comps for x in deep)
            chain = [sl["src"], sl["sleeper"]] + deep + [sl["load"]]
            ok = ok and all(list(m.parents[c]) == [p_] for p_, c in zip(chain, chain[1:]))
            ok = ok and all(not m.phase_conf[x] for x in deep)
            ok = ok and m.kind(sl["load"]) == "ILoad" and sorted(m.descendants(sl["src"])) == sorted(chain[1:])
            ok = ok and m.phases_coherent() and sl["off"] in m.sys_phases
            if ok:
                cf = m.phase_conf[sl["load"]]
                ok = isinstance(cf, dict) and all(ph in cf for ph in m.sys_phases)
                ok = ok and all((not is_active(m.kind(sl["sleeper"]), m.phase_conf[sl["sleeper"]], ph)) or abs(cf[ph]) <= sl["limit"] for ph in m.sys_phases)
                ok = ok and not is_active(m.kind(sl["sleeper"]), m.phase_conf[sl["sleeper"]], sl["off"])
            if ok:
                tag = next((p_ for p_ in ("C06", "C04") if p_ in E), None)
                sess.stats["sleeper_overload_judged"] += 1
                if tag:
                    sess.fail(tag, "sleeping-element-is-off", "solve() raised %s(%s) although the system solved before a separate branch %s was added whose series element %s sleeps in phase %r, the only phase in which its load is heavy" % (r[1], r[2], " -> ".join(chain), sl["sleeper"], sl["off"]),
                              sig="dead-branch-two-levels-below-the-sleeper" if deep else "")
        if not op.get("kw"):
            sess.last_plain_solve_ok = False
        if "C03" in E:
            sess.stats["c03_outcome:" + r[1]] += 1
            mi_ = kw.get("maxiter", 10000)
            nph_ = 1 if (kw.get("phase") or not m.sys_phases) else len(m.sys_phases)
            if sess.w.sweeps.fwd > nph_ * (mi_ + 1):
                sess.fail("C03", "terminates-within-maxiter", "%d sweeps before raising %s with maxiter=%d (%d phase(s))" % (sess.w.sweeps.fwd, r[1], mi_, nph_))
            defaults = not any(k in kw for k in ("vtol", "itol", "maxiter"))
            if defaults:
                from .refsolve import modest

                if modest(m):
                    sess.fail("C03", "modest-system-solved", "solve() raised %s(%s) on a system with a modest-drop steady state" % (r[1], r[2]))
    else:
        if not op.get("kw"):
            sess.last_plain_solve_ok = True
        if op.get("sleeper"):
            sess.stats["sleeper_overload_solved" + ("_deep" if op["sleeper"].get("deep") else "")] += 1
        table = O.Table(r[1])
        if sess.gen is not None and table.phases:
            sess.gen.last_table = table.comp[table.phases[0]]
        if "phase" not in kw and m.phases_coherent() and table.phases != m.phase_list():
            # the table is organised by other phases than the ones defined: none
            # of the per-phase clauses can be evaluated
            tag = next((p_ for p_ in ("C06", "C16", "C07", "C01", "C02", "C04", "C05", "C08", "C09", "C03") if p_ in E), None)
            if tag:
                sess.fail(tag, "reports-exactly-the-defined-phases", "table phases %s, defined phases %s" % (table.phases, m.phase_list()))
            return
        out = checks._Out()
        tol = checks.Tol(vt, it, atol=sess.tol_atol)
        if "C03" in E:
            sess.stats["c03_outcome:table"] += 1
        checks.check_table(m, table, ta, tol, E, out, sess.stats, phase_arg=kw.get("phase", ""))
        sess.stats["tables_checked"] += 1
        if out:
            sess.fail(*out[0])
        _count_nontrivial(sess, table)
        if "C03" in E:
            from .c03 import check_sweeps

            check_sweeps(sess, op, kw, table)
    if "C03" in E and op.get("c03"):
        outcome = "table" if table is not None else r[1]
        mi = kw.get("maxiter", 10000)
        bucket = (kw.get("vtol", 1e-6) <= 1e-6, kw.get("itol", 1e-6) <= 1e-6, 0 if mi < 5 else (1 if mi < 1000 else 2))
        over = tuple(sorted(set(sess.model.kind(n) for n in sess.model.order)))
        sess.stats["c03_%s_calls" % op["c03"]] += 1
        if op["c03"] in ("stress", "micro"):
            sess.nontrivial.add(("c03", op["c03"], outcome, bucket, over))
    if ("C06" in E or "C16" in E) and table is not None and "phase" not in kw and m.phases_coherent():
        if table.phases != m.phase_list():
            sess.fail("C06" if "C06" in E else "C16", "reports-exactly-the-defined-phases", "table phases %s, defined phases %s" % (table.phases, m.phase_list()))
    if "C06" in E:
        for ph in sorted(getattr(sess, "dropped_phases", set()) - set(m.sys_phases)):
            r3 = sess._guard(lambda: sut.solve(phase=ph))
            if not (r3[0] == "exc" and r3[1] == "ValueError"):
                sess.fail("C06", "unknown-phase-rejected", "solve(phase=%r) accepted although that phase is no longer defined -> %s" % (ph, _short(r3)))
    # phases: single-phase slice equals all-phase rows; unknown phase rejected
    if "C06" in E and table is not None and m.sys_phases and "phase" not in kw:
        for ph in list(m.sys_phases.keys()):
            r1 = sess._guard(lambda: sut.solve(phase=ph, **kw))
            if r1[0] != "ok":
                sess.fail("C06", "single-phase-solve", "solve(phase=%r) raised %r while all-phase solve succeeded" % (ph, r1[1:]))
            t1 = O.Table(r1[1])

            def same_row(a, b):
                """b (row of the all-phase table) may carry extra columns that
                another phase made appear; they must be blank here."""
                if a is None or b is None:
                    return "missing row"
                dk = [(c, a.get(c), b.get(c)) for c in a if a.get(c) != b.get(c)]
                dk += [(c, None, b[c]) for c in b if c not in a and b[c] != ""]
                return dk or None

            if set(t1.comp.get(ph, {})) != set(table.comp[ph]):
                sess.fail("C06", "single-phase-equals-slice", "solve(phase=%r) rows differ" % ph)
            for n, row in t1.comp.get(ph, {}).items():
                dk = same_row(row, table.comp[ph].get(n))
                if dk:
                    sess.fail("C06", "single-phase-equals-slice", "solve(phase=%r) row %s differs in %s" % (ph, n, _short(dk)))
            dk = same_row(t1.total.get(ph), table.total.get(ph))
            if dk:
                sess.fail("C06", "single-phase-equals-slice", "solve(phase=%r) total row differs in %s" % (ph, _short(dk)))
            if set(t1.subsys.get(ph, {})) != set(table.subsys.get(ph, {})):
                sess.fail("C06", "single-phase-equals-slice", "solve(phase=%r) subsystem rows differ" % ph)
            for s_, row in t1.subsys.get(ph, {}).items():
                dk = same_row(row, table.subsys[ph].get(s_))
                if dk:
                    sess.fail("C06", "single-phase-equals-slice", "solve(phase=%r) subsystem %s differs in %s" % (ph, s_, _short(dk)))
        r2 = sess._guard(lambda: sut.solve(phase="no such phase"))
        if not (r2[0] == "exc" and r2[1] == "ValueError"):
            sess.fail("C06", "unknown-phase-rejected", "solve(phase='no such phase') -> %s" % _short(r2))
        sess.stats["c06_slices"] += 1
    if "C06" in E and not m.sys_phases:
        r2 = sess._guard(lambda: sut.solve(phase="no such phase"))
        if not (r2[0] == "exc" and r2[1] == "ValueError"):
            sess.fail("C06", "unknown-phase-rejected", "solve(phase='no such phase') -> %s" % _short(r2))
    # rail report
    if "C08" in E and table is not None:
        rr = sess._guard(lambda: sut.rail_rep(**kw))
        if rr[0] != "ok":
            sess.fail("C08", "rail-rep-succeeds", "rail_rep() raised %r while solve() succeeded" % (rr[1:],))
        same = None
        if not any(m.rails.values()):
            same = O.diff_canon(O.canon_table(rr[1]), O.canon_table(r[1]), rtol=0.0, atol=0.0, eff_atol=0.0) is None
        out = []
        checks.check_rail_rep(m, table, rr[1], same, out, sess.stats)
        if out:
            sess.fail(*out[0])
    # twins
    full = None
    if ("C16" in E or "C12" in E or "C17" in E) and not kw.get("phase"):
        full = sess.full_obs(sut, ta)
        sess.last_full, sess.dirty = full, False
    if "C16" in E and full is not None:
        for seed in (None, op.get("sh", 1)):
            fs = sess._guard(lambda: sess.build_fresh(seed))
            if fs[0] != "ok":
                sess.stats["fresh_build_failed:" + fs[1]] += 1
                break
            f = fs[1]
            d = sess.snap_diff(sess.prev_snap, sess.snapshot(f))
            if d:
                sess.fail("C16", "reports-equal-from-scratch", "%s build: %s" % ("canonical" if seed is None else "shuffled", d))
            d = sess.full_diff(full, sess.full_obs(f, ta))
            if d:
                sess.fail("C16", "results-equal-from-scratch", "%s build: %s" % ("canonical" if seed is None else "shuffled", d))
            if seed is None:
                from .render import collect

                def drawn(sysobj):
                    n0 = len(sess.w.graphs)
                    sess.w.D.make_diag(sysobj, fname="c16.raw")
                    nodes, edges, clusters = collect(sess.w.graphs[-1])
                    del sess.w.graphs[n0:]
                    return (sorted((n, c) for n, _, c in nodes), sorted((a, b) for a, b, _ in edges), sorted(clusters))

                ga, gb = sess._guard(lambda: drawn(sut)), sess._guard(lambda: drawn(f))
                if ga != gb:
                    sess.fail("C16", "diagram-equal-from-scratch", "make_diag: %s vs from-scratch %s" % (_short(ga), _short(gb)))
            sess.stats["c16_fresh_compares"] += 1
        for name in ("solve", "rail"):
            x = full[name]
            if isinstance(x, tuple) and x[1] not in ("RuntimeError", "ValueError"):
                sess.fail("C16", "report-succeeds", "%s raised %s(%s)" % (name, x[1], x[2]))
        from .c16 import check_reports

        check_reports(sess)
    if "C12" in E and op.get("roundtrip", True) and full is not None:
        apply_restart(sess, {"op": "restart", "replace": False, "skew": op.get("skew")})
        sess.outcomes.pop()
    if "C19" in E and op.get("render"):
        for rop in op["render"]:
            apply_analysis(sess, rop)
            sess.outcomes.pop()
    # final SUT == twins that never saw the rejected calls / analyses
    if op.get("final") and ("C17" in E or "C15" in E) and not sess.twin_lost:
        if full is None:
            full = sess.full_obs(sut, ta)
        d = sess.full_diff(full, sess.full_obs(sess.shadow, ta))
        if d:
            sess._twin_fail("final full observation: " + d, op)
        if sess.pristine is not None and not sess.had_restart:
            psnap = sess.snapshot(sess.pristine)
            d = sess.snap_diff(sess.prev_snap, psnap)
            if d:
                sess._twin_fail("final reports vs edits-only twin: " + d, op)
            d = sess.full_diff(full, sess.full_obs(sess.pristine, ta))
            if d:
                sess._twin_fail("final results vs edits-only twin: " + d, op)
            sess.stats["pristine_twin_compares"] += 1
        m_ = sess.model
        if "C17" in E and sess.sut_objs is not None and not getattr(sess, "model_lost", False) and all(n in sess.sut_objs for n in m_.order) and not any(m_.comps[n].get("via_file") for n in m_.order):
            # the component objects the caller handed over are still what they
            # were: a second system built from those very objects reports the
            # configuration of a freshly built one
            r_ = sess._guard(lambda: sess.build_fresh(objs=sess.sut_objs))
            f_ = sess._guard(lambda: sess.build_fresh())
            if r_[0] == "ok" and f_[0] == "ok":
                d = sess.snap_diff(sess.snapshot(f_[1]), sess.snapshot(r_[1]))
                if d:
                    sess.fail("C17", "analysis-changed-a-component-object", "a system built from the component objects that were handed to the analysed system differs from a freshly built one: " + d)
                sess.stats["retained_object_twin_compares"] += 1


def _count_nontrivial(sess, table):
    m = sess.model
    ph0 = table.phases[0]
    rows = table.comp[ph0]
    if len(rows) >= 3 and any(rows[n]["Iout (A)"] != 0 for n in rows if isinstance(rows[n]["Iout (A)"], (int, float))):
        depth = max(m.depth(n) for n in m.order) if set(rows) == set(m.order) else 0
        if depth >= 2:
            forms = tuple(sorted(set(f for n in m.order for f in __import__("sim.spec", fromlist=["x"]).spec_forms(m.comps[n]))))
            pol = tuple(sorted(set((m.comps[s]["p"]["vo"] > 0) - (m.comps[s]["p"]["vo"] < 0) for s in m.sources())))
            dead = tuple(sorted(n_ for n_ in () ))
            sess.nontrivial.add(("tbl", m.shape(), forms, pol, len(table.phases)))


def apply_enumeration(sess, op):
    from .enum import run_enumeration

    run_enumeration(sess, op)
