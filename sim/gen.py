"""Seeded generator of session operations.  Every operation is emitted as
concrete plain data (names, numbers, tables spelled out) so that a recorded
session replays without the PRNG and any subsequence is again a valid session.

The generator looks only at the reference model (which mirrors the accepted
edits) and, for limit placement, at the last solved table of the session."""
import copy
from .spec import mk, LOADS, LIST_PHASE_KINDS, APPLICABLE, KINDS
from .rng import R

E6 = [1.0, 1.5, 2.2, 3.3, 4.7, 6.8]
SRC_V = [3.3, 5.0, 12.0, 24.0, 48.0, 3.7, 9.0, 1.5, 7.4]
REG_V = [0.9, 1.2, 1.8, 2.5, 3.3, 5.0, 9.0, 12.0, 15.0]
PHASE_NAMES = ["sleep", "idle", "tx", "rx", "move", "boot"]
GROUPS = ["", "", "", "core", "rf", "io 1", "AFE", "io", "rf2"]

SERIES_KINDS = ["RLoss", "VLoss", "Converter", "LinReg", "PSwitch", "Rectifier"]
ALL_CHILD_KINDS = ["PLoad", "ILoad", "RLoad"] + SERIES_KINDS


def default_cfg():
    return {
        "focus": "C15",
        "max_comps": 12,
        "max_depth": 5,
        "n_ops": 25,
        "kinds": list(KINDS),
        "neg_supply": 0.25,
        "neg_params": 0.0,
        "tables": 0.25,
        "tables2d_general": 0.3,
        "limits": 0.3,
        "rt": 0.3,
        "loss_flag": 0.2,
        "groups": 0.4,
        "rails": 0.4,
        "phases": 0.4,
        "mux": 0.4,
        "multi_source": 0.5,
        "warn_error": False,
        "restart": 0.0,
        "names": "plain",
        "w": {"grow": 4, "edit": 2, "reject": 2, "phase": 1, "domfault": 0.3, "analyse": 1, "restart": 0, "observe": 0.7},
        "micro": False,
        "stress": False,
        "hash_seed": 0,
        "clock": "mono",
        "neg_source_rs": False,
        "zero_params": 0.0,
        "deprecated_iq": False,
        "mixed_scale": False,
        "collapse_inputs": False,
        "via_file": 0.0,
        "inf_limits": False,
        "mega": False,
    }


class Gen:
    def __init__(self, rnd, cfg):
        self.r = R(rnd)
        self.cfg = cfg
        self.n = 0
        self.freed = []  # names freed by deletions (for re-use)
        self.freed_rails = []  # rail names dropped by edits (for re-use)
        self.pending = []  # operations queued to follow the previous one directly
        self.last_table = None  # set by the session: {name: row} of last solve

    # ------------------------------------------------------------------
    # names
    def fresh(self, prefix, m):
        style = self.cfg["names"]
        for _ in range(50):
            self.n += 1
            if self.freed and self.r.chance(0.25):
                nm = self.freed.pop(self.r.randint(0, len(self.freed) - 1))
            elif style == "plain":
                nm = "%s%d" % (prefix, self.n)
            elif style == "fancy":
                fmt = self.r.pick(["{p} {n}", "{p}.{n}", "{n}{p}", "{p}-{n}", "{p}_{n} v2", "{p}{n}", "{n} {p}", "{p} ({n})", "{p}/{n}", "{p}+{n}V"])
                nm = fmt.format(p=prefix, n=self.n)
            elif style == "summary":
                # names that collide with the summary rows of the solve() table
                # (legal: names are free strings); separate, rarely enabled class
                srcs = list(m.sources()) if m is not None else []
                cands = ["System total", "System average"] + ["Subsystem " + x for x in srcs]
                nm = self.r.pick(cands) if self.r.chance(0.5) else "%s%d" % (prefix, self.n)
            elif style == "markup":
                # names that look like console markup (legal: names are free strings)
                fmt = self.r.pick(["[red]{p}{n}", "{p}{n}[/]", "[b]{p}[/b]{n}", "{p}[{n}]", "{p}{n}", "[link=x]{p}{n}", "{p} \\[{n}]"])
                nm = fmt.format(p=prefix, n=self.n)
            elif style == "dot":
                nm = self.r.pick(["%s:%d" % (prefix, self.n), "node", "edge", "graph", "%s%d" % (prefix, self.n), '%d" %s' % (self.n, prefix), "%s\\%d" % (prefix, self.n), "Scale", "cluster_%d" % self.n])
            else:
                nm = "%s%d" % (prefix, self.n)
            if m is None or nm not in m.used_names():
                return nm
        return "%s%d_%d" % (prefix, self.n, self.r.randint(1000, 9999))

    def fresh_rail(self, m):
        # sometimes re-use a rail name that an earlier edit dropped
        pool = [r for r in self.freed_rails if m is None or r not in m.used_names()]
        if pool and self.r.chance(0.5):
            r = self.r.pick(pool)
            self.freed_rails.remove(r)
            return r
        return self.fresh("R_", m)

    # ------------------------------------------------------------------
    # numbers
    def eng(self, lo_dec, hi_dec):
        return self.r.pick(E6) * 10.0 ** self.r.randint(lo_dec, hi_dec)

    def neg(self, x):
        if self.cfg.get("zero_params") and self.r.chance(self.cfg["zero_params"]):
            return 0.0  # legal: zero-ohm link, zero quiescent current, ...
        if self.cfg["neg_params"] and self.r.chance(self.cfg["neg_params"]):
            return -x
        return x

    def table(self, key, lo, hi, vnom, imax, mono=None):
        t = self._table(key, lo, hi, vnom, imax, mono)
        if self.r.chance(0.12):
            t["vi"] = [-a for a in t["vi"]]  # a table written for a negative rail (magnitudes count)
        if key == "vdrop" and self.r.chance(0.12):
            t[key] = [[-a for a in r_] for r_ in t[key]]  # drops written with a sign (magnitudes count)
        return t

    def _table(self, key, lo, hi, vnom, imax, mono=None):
        """A 1-D or 2-D table for parameter `key` with values in [lo, hi]."""
        nio = self.r.randint(2, 4)
        ios = sorted(set(round(imax * f, 9) for f in self.r.sample([0.0, 0.01, 0.05, 0.1, 0.25, 0.5, 1.0, 1.5], nio)))
        if len(ios) < 2:
            ios = [0.0, imax]

        def row():
            vals = [round(self.r.uniform(lo, hi), 6) for _ in ios]
            if mono:
                vals.sort()
            return vals

        if self.r.chance(0.5) or self.cfg.get("micro"):
            # (micro class: 1-D only -- a 2-D grid whose io steps are 1e-9 of the
            # vi coordinates is not a well-conditioned table)
            return {"vi": [round(abs(vnom), 3)], "io": ios, key: [row()]}
        nvi = self.r.randint(2, 4)
        vis = sorted(set(round(abs(vnom) * f, 3) for f in self.r.sample([0.3, 0.5, 0.8, 0.9, 1.1, 1.2, 2.0], nvi)))
        if len(vis) < 2:
            vis = [round(abs(vnom) * 0.5, 3), round(abs(vnom) * 1.5, 3)]
        # well-conditioned 2-D grids only: every axis step at least 2e-4 of the
        # largest coordinate (the documented premise for tabulated parameters)
        bound = 2e-4 * max(max(vis), max(ios))
        keep = [ios[0]]
        for x in ios[1:]:
            if x - keep[-1] >= bound:
                keep.append(x)
        if len(keep) < 2 or min(b - a for a, b in zip(vis, vis[1:])) < bound:
            return {"vi": [round(abs(vnom), 3)], "io": ios, key: [row()]}
        ios = keep
        if self.r.chance(self.cfg["tables2d_general"]):
            rows = [row() for _ in vis]
        else:
            r0 = row()
            rows = [list(r0) for _ in vis]
        if len(vis) >= 3 and self.r.chance(0.25):
            # the rows of a table may be written in any order of vi
            perm = list(range(len(vis)))
            self.r.shuffle(perm)
            vis = [vis[j] for j in perm]
            rows = [rows[j] for j in perm]
        return {"vi": vis, "io": ios, key: rows}

    def maybe_table(self, key, const, lo, hi, vnom, imax, mono=None):
        if self.cfg["tables"] and self.r.chance(self.cfg["tables"]):
            return self.table(key, lo, hi, vnom, imax, mono)
        return const

    def limits_for(self, kind, name_hint=None):
        if not self.r.chance(self.cfg["limits"]):
            return None
        keys = APPLICABLE[kind]
        if self.r.chance(0.15):
            keys = list(keys) + [k for k in ["vi", "vo", "vd", "ii", "io"] if k not in keys][:1]
        ks = self.r.sample(keys, self.r.randint(1, min(3, len(keys))))
        lim = {}
        for k in ks:
            base = self._limit_base(k)
            f = self.r.pick([0.5, 0.9, 0.999, 1.001, 1.1, 2.0, 10.0])
            hi = base * f
            lo = self.r.pick([0.0, 0.0, base * 0.1, base * 1.05])
            if k == "tp":
                lim[k] = [self.r.pick([-40.0, 0.0, 26.0]), self.r.pick([24.0, 30.0, 85.0, 125.0, 1.0e6])]
            else:
                lim[k] = [round(lo, 9), round(max(hi, lo), 9)]
            if k != "tp" and self.r.chance(0.08):
                # written for a negative rail in numeric order, or simply high-first:
                # limits are compared by magnitude, the order inside the pair is free
                lim[k] = self.r.pick([[-lim[k][1], -lim[k][0]], [lim[k][1], lim[k][0]], [-lim[k][0], -lim[k][1]]])
            if self.cfg.get("inf_limits") and self.r.chance(0.3):
                # an unbounded side is legal: limits are any two numbers
                lim[k] = [lim[k][0], float("inf")] if k != "tp" or self.r.chance(0.5) else [-float("inf"), lim[k][1]]
        return lim

    def _limit_base(self, k):
        if k in ("vi", "vo"):
            return self.r.pick([1.8, 3.3, 5.0, 12.0])
        if k == "vd":
            return self.r.pick([0.1, 0.5, 2.0])
        if k in ("ii", "io"):
            return self.eng(-3, -1)
        if k in ("pi", "po", "pl"):
            return self.eng(-3, 0)
        if k == "tr":
            return self.r.pick([1.0, 5.0, 20.0])
        return 50.0

    def near_limits(self, kind, row):
        """Limits placed around the values of an existing solved row (C09)."""
        vals = row_quantities(row)
        keys = [k for k in APPLICABLE[kind] if k in vals and vals[k] is not None]
        if not keys:
            return None
        lim = {}
        for k in self.r.sample(keys, self.r.randint(1, min(4, len(keys)))):
            v = vals[k]
            a = abs(v)
            if a == 0.0 and k != "tp":
                continue  # nothing to place a limit around
            mode = self.r.pick(["hi_in", "hi_out", "lo_in", "lo_out", "exact_hi", "exact_lo", "far", "neg"])
            if k == "tp":
                if mode in ("hi_in", "far"):
                    lim[k] = [v - 50.0, v + self.r.pick([1e-6, 1.0, 40.0])]
                elif mode == "hi_out":
                    lim[k] = [v - 50.0, v - self.r.pick([1e-6, 1.0])]
                elif mode == "lo_out":
                    lim[k] = [v + self.r.pick([1e-6, 1.0]), v + 100.0]
                elif mode == "exact_hi":
                    lim[k] = [v - 10.0, v]
                elif mode == "exact_lo":
                    lim[k] = [v, v + 10.0]
                else:
                    lim[k] = [v - 1.0, v + 1.0]
                continue
            if mode == "hi_in":
                lim[k] = [0.0, a * self.r.pick([1.000001, 1.01, 2.0])]
            elif mode == "hi_out":
                lim[k] = [0.0, a * self.r.pick([0.999999, 0.99, 0.5])]
            elif mode == "lo_in":
                lim[k] = [a * self.r.pick([0.999999, 0.99, 0.5]), a * 10 + 1.0]
            elif mode == "lo_out":
                lim[k] = [a * self.r.pick([1.000001, 1.01, 2.0]), a * 10 + 1.0]
            elif mode == "exact_hi":
                lim[k] = [0.0, a]
            elif mode == "exact_lo":
                lim[k] = [a, a * 10 + 1.0]
            elif mode == "neg":
                lim[k] = [-(a * 0.5), -(a * self.r.pick([0.9, 1.1]))]
            else:
                lim[k] = [0.0, 1.0e5]
        return lim

    def rt(self):
        if self.r.chance(self.cfg["rt"]):
            return self.neg(self.r.pick([1.0, 8.5, 25.0, 60.0, 120.0]))
        return None

    # ------------------------------------------------------------------
    # components
    def scale_i(self):
        """Typical current scale of the run class."""
        if self.cfg["micro"]:
            return 10.0 ** self.r.randint(-9, -6)
        if self.cfg.get("mega"):
            return 1.0e5  # kV x kA systems: magnitudes beyond the default limits of 1e6
        if self.cfg.get("mixed_scale") and self.r.chance(0.35):
            return 10.0 ** self.r.randint(-7, -5)  # a uA branch next to mA/A branches
        return 1.0

    def source(self, m, name=None, positive=None):
        name = name or self.fresh("S", m)
        v = self.r.pick(SRC_V)
        if self.cfg.get("mega"):
            v = v * 1000.0
        if positive is False or (positive is None and self.r.chance(self.cfg["neg_supply"])):
            v = -v
        p = {"vo": v}
        # negative supplies with series resistance are a separate, rarely
        # enabled input class (known finding D1, see KNOWN_FINDINGS.json)
        if self.r.chance(0.6) and (v > 0 or self.cfg.get("neg_source_rs")):
            p["rs"] = self.neg(self.r.pick([0.01, 0.05, 0.1, 0.2, 0.5]))
        return self.form(mk("Source", name, p, self.limits_for("Source")))

    def flagform(self, op):
        """Boolean arguments spelled as numpy bools / 0-1 (argument-form class)."""
        if self.cfg.get("arg_forms") and self.r.chance(0.6):
            op["flagform"] = self.r.pick(["np", "int"])
        return op

    def form(self, spec):
        if self.cfg.get("arg_forms") and self.r.chance(0.6):
            spec["form"] = self.r.pick(["int", "np"])
        return spec

    def comp(self, kind, m, vnom, name=None, heavy=False):
        """A component of `kind` sized for a supply of about `vnom` volts."""
        name = name or self.fresh(kind[:2] if kind not in LOADS else kind[0] + "L", m)
        a = max(abs(vnom), 0.5)
        si = self.scale_i()
        p = {}
        if kind == "PLoad":
            p["pwr"] = self.neg(self.eng(-3, -1) * (5.0 if heavy else 1.0) * si * (1000.0 if self.cfg.get("mega") else 1.0))
            if self.r.chance(0.4):
                p["pwrs"] = self.neg(self.eng(-4, -3) * si)
        elif kind == "ILoad":
            p["ii"] = self.neg(self.eng(-3, -2) * (5.0 if heavy else 1.0) * si)
            if self.r.chance(0.4):
                p["iis"] = self.neg(self.eng(-4, -3) * si)
        elif kind == "RLoad":
            p["rs"] = round(a / (self.eng(-3, -2) * si), 3) * (-1 if (self.cfg["neg_params"] and self.r.chance(self.cfg["neg_params"])) else 1)
        elif kind == "RLoss":
            p["rs"] = self.neg(self.r.pick([0.01, 0.05, 0.1, 0.33, 1.0, 2.2]) / (si if si < 1 else 1.0) * (1.0 if not self.cfg["micro"] else 1e-3))
            if self.cfg.get("mega"):
                p["rs"] = p["rs"] * 0.1
        elif kind == "VLoss":
            d = round(min(0.05 * a + 0.05, 0.7) * self.r.pick([0.3, 0.6, 1.0]), 4)
            p["vdrop"] = self.maybe_table("vdrop", self.neg(d), 0.2 * d, d, a, 0.2 * si, mono=True)
        elif kind == "Converter":
            vo = self.r.pick(REG_V)
            if self.r.chance(0.2):
                vo = -vo
            p["vo"] = vo
            e = round(self.r.uniform(0.6, 0.98), 3)
            p["eff"] = self.maybe_table("eff", e, 0.55, 0.98, a, 0.3 * si)
            if self.r.chance(0.6):
                p["iq"] = self.neg(self.eng(-4, -3) * si)
            if self.r.chance(0.4):
                p["iis"] = self.neg(self.eng(-4, -4) * si)
        elif kind == "LinReg":
            cands = [v for v in REG_V if v < a - 0.3]
            vo = self.r.pick(cands) if cands and not self.r.chance(0.1) else self.r.pick(REG_V)
            if vnom < 0:
                vo = -vo
            p["vo"] = vo
            if self.r.chance(0.7):
                p["vdrop"] = self.neg(round(min(self.r.pick([0.1, 0.2, 0.3, 0.5]), abs(vo) * 0.5), 3))
            g = self.eng(-4, -3) * si
            if self.r.chance(0.7):
                p["ig"] = self.maybe_table("ig", self.neg(g), 0.5 * g, 2 * g, a, 0.2 * si, mono=True)
                if self.cfg.get("deprecated_iq") and self.r.chance(0.5):
                    # the deprecated spelling: iq (scalar, or a table keyed 'iq')
                    v = p.pop("ig")
                    if isinstance(v, dict):
                        v = {"vi": v["vi"], "io": v["io"], "iq": v["ig"]}
                    if isinstance(v, dict) or v != 0.0:
                        p["iq"] = v
                    else:
                        p["ig"] = v
            if self.r.chance(0.4):
                p["iis"] = self.neg(self.eng(-4, -4) * si)
        elif kind in ("PSwitch", "PMux"):
            if self.r.chance(0.8):
                p["rs"] = self.neg(self.r.pick([0.01, 0.05, 0.1, 0.2, 0.35]))
            g = self.eng(-4, -3) * si
            if self.r.chance(0.6):
                p["ig"] = self.maybe_table("ig", self.neg(g), 0.5 * g, 2 * g, a, 0.2 * si)
                if kind == "PMux" and self.cfg["tables"] and not isinstance(p["ig"], dict) and self.r.chance(0.35) and not self.cfg.get("micro"):
                    # a mux sees several input voltages: a ground-current table over vi matters
                    t = self.table("ig", 0.5 * g, 2 * g, a, 0.2 * si)
                    if len(t["vi"]) > 1:
                        t["ig"] = [[round(self.r.uniform(0.5 * g, 2 * g), 9) for _ in t["io"]] for _ in t["vi"]]
                    p["ig"] = t
            if self.r.chance(0.6 if kind == "PMux" else 0.4):
                p["iis"] = self.neg(self.eng(-4, -4) * si)
        elif kind == "Rectifier":
            if self.r.chance(0.5):
                d = round(min(0.04 * a + 0.05, 0.6), 4)
                p["vdrop"] = self.maybe_table("vdrop", self.neg(d), 0.3 * d, d, a, 0.2 * si, mono=True)
            else:
                if self.r.chance(0.8):
                    p["rs"] = self.neg(self.r.pick([0.01, 0.05, 0.1, 0.2]))
                if self.cfg.get("rect_rs_list"):
                    # documented as `float | list` and accepted by the constructor
                    # (separate, rarely enabled input class: known finding D3)
                    p["rs"] = [0.05, 0.1]
                g = self.eng(-4, -3) * si
                if self.r.chance(0.6):
                    p["ig"] = self.maybe_table("ig", self.neg(g), 0.5 * g, 2 * g, a, 0.2 * si)
                if self.r.chance(0.5):
                    p["iq"] = self.neg(self.eng(-4, -3) * si)
        else:
            raise AssertionError(kind)
        rt = self.rt()
        if rt is not None:
            p["rt"] = rt
        if kind in LOADS and self.r.chance(self.cfg["loss_flag"]):
            p["loss"] = True
        spec = mk(kind, name, p, self.limits_for(kind))
        if self.cfg.get("via_file") and self.r.chance(self.cfg["via_file"]):
            spec["via_file"] = True  # built with Kind.from_file from a stored TOML file
        return self.form(spec)

    def mux_rs(self, spec, ninputs):
        if self.r.chance(0.5):
            spec["p"]["rs"] = [self.neg(self.r.pick([0.01, 0.05, 0.1, 0.2, 0.35])) for _ in range(ninputs)]
        if spec.get("form") == "int" and self.r.chance(0.7):
            spec["p"]["rs"] = [float(self.r.pick([0, 1, 1, 2])) for _ in range(ninputs)]  # built as a list of Python ints
        return spec

    # ------------------------------------------------------------------
    # nominal voltage estimate from the model
    def vnom(self, m, n, _d=0):
        return model_vnom(m, n)

    # ------------------------------------------------------------------
    # argument helpers
    def group(self):
        if self.cfg["names"] == "dot" and self.r.chance(0.5):
            # group names are free strings too
            return self.r.pick(["p:wr", 'a "b"', "node", "x\\y", "cluster", "Scale", "a;b", "{c}"])
        return self.r.pick(GROUPS) if self.r.chance(self.cfg["groups"]) else ""

    def rail(self, m, kind):
        if kind in LOADS:
            # legal: a rail on a load is ignored with a UserWarning
            return self.fresh_rail(m) if self.r.chance(0.12) else ""
        return self.fresh_rail(m) if self.r.chance(self.cfg["rails"]) else ""

    def parent_ref(self, m, n):
        """Address a parent by name or (when it owns one) by its rail."""
        if m.rails.get(n) and self.r.chance(0.5):
            return m.rails[n]
        return n

    def nonload(self, m):
        return [n for n in m.order if m.kind(n) not in LOADS]

    def can_parent(self, m):
        md = self.cfg["max_depth"]
        return [n for n in self.nonload(m) if m.depth(n) < md]

    # ------------------------------------------------------------------
    # operations
    def op_new(self):
        src = self.source(None)
        kind = "Source"
        rail = ""
        if self.r.chance(self.cfg["rails"]):
            rail = "R_main"
        return {"op": "new", "name": "sys", "comp": src, "group": self.group(), "rail": rail}

    def op_add_source(self, m):
        s = self.source(m)
        return {"op": "add_source", "comp": s, "group": self.group(), "rail": self.rail(m, "Source")}

    def op_add_comp(self, m, kinds=None, parent=None, heavy=False):
        cands = self.can_parent(m)
        if not cands:
            return None
        p = parent or self.r.pick(cands)
        kinds = kinds or [k for k in ALL_CHILD_KINDS if k in self.cfg["kinds"]]
        if m.depth(p) + 1 >= self.cfg["max_depth"]:
            kinds = [k for k in kinds if k in LOADS] or ["PLoad"]
        # bias toward loads at depth so trees carry current
        w = [(k, 3.0 if k in LOADS else 1.0) for k in kinds]
        kind = self.r.wpick(w)
        spec = self.comp(kind, m, self.vnom(m, p), heavy=heavy)
        return {
            "op": "add_comp",
            "parent": self.parent_ref(m, p),
            "comp": spec,
            "group": self.group(),
            "rail": self.rail(m, kind),
        }

    def op_add_mux(self, m):
        if m.mux() is not None:
            return None
        cands = self.can_parent(m)
        if not cands:
            return None
        n_in = min(self.r.wpick([(1, 2), (2, 4), (3, 2.5), (4, 1.5)]), len(cands))
        ins = self.r.sample(cands, n_in)
        deep = [c for c in cands if m.depth(c) >= 2]
        if deep and n_in >= 2 and self.r.chance(0.7):
            # at least one input at the end of a chain (source -> a -> b -> mux)
            d = self.r.pick(deep)
            if d not in ins:
                ins[self.r.randint(0, n_in - 1)] = d
        spec = self.comp("PMux", m, self.vnom(m, ins[0]))
        self.mux_rs(spec, len(ins))
        parent = [self.parent_ref(m, i) for i in ins]
        return {
            "op": "add_comp",
            "parent": parent if (len(parent) > 1 or self.r.chance(0.5)) else parent[0],
            "comp": spec,
            "group": self.group(),
            "rail": self.rail(m, "PMux"),
        }

    def op_change(self, m):
        n = self.r.pick(m.order)
        k = m.kind(n)
        mode = self.r.wpick([("same", 3), ("other", 2), ("rename", 2)])
        newname = n if mode != "rename" and not self.r.chance(0.2) else self.fresh(k[:2], m)
        if k == "Source":
            spec = self.source(m, name=newname)
        elif k == "PMux":
            spec = self.comp("PMux", m, self.vnom(m, n), name=newname)
            self.mux_rs(spec, len(m.parents[n]))
        else:
            vn = self.vnom(m, m.parents[n][0])
            if mode == "other":
                if m.children(n):
                    nk = self.r.pick([x for x in SERIES_KINDS if x in self.cfg["kinds"]] or ["RLoss"])
                else:
                    nk = self.r.pick([x for x in ALL_CHILD_KINDS if x in self.cfg["kinds"]])
            else:
                nk = k
            spec = self.comp(nk, m, vn, name=newname)
        rail = self.fresh_rail(m) if self.r.chance(0.12) else ""
        if spec["kind"] not in LOADS:
            rail = self.r.wpick([("", 3), (m.rails.get(n, ""), 2), (self.fresh_rail(m), 2)])
        return {"op": "change_comp", "name": n, "comp": spec, "group": self.group(), "rail": rail}

    def ops_rail_handover(self, m):
        """A mux input loses its rail name, and another component takes that
        name over (legal: rail names only have to be unique at any one time)."""
        mux = m.mux()
        if mux is None:
            return []
        railed = [i for i in m.parents[mux] if m.rails.get(i)]
        if not railed:
            return []
        x = self.r.pick(railed)
        r = m.rails[x]
        spec = copy.deepcopy(m.comps[x])
        ops = [{"op": "change_comp", "name": x, "comp": spec, "group": m.groups[x], "rail": ""}]
        hosts = [n for n in self.nonload(m) if n != x and not m.rails.get(n) and n != mux]
        if hosts and self.r.chance(0.8):
            y = self.r.pick(hosts)
            ops.append({"op": "change_comp", "name": y, "comp": copy.deepcopy(m.comps[y]), "group": m.groups[y], "rail": r})
        return ops

    def ops_rename_above_then_unlink(self, m):
        """The component above a (non-source) mux input gets a new name, then
        that input is removed keeping what is below: the mux is now fed by the
        renamed component."""
        mux = m.mux()
        if mux is None:
            return []
        cands = [d for d in m.parents[mux] if m.kind(d) != "Source" and not m.del_ambiguous(d, False)]
        if not cands:
            return []
        d = self.r.pick(cands)
        g_ = m.parents[d][0]
        spec = copy.deepcopy(m.comps[g_])
        spec["name"] = self.fresh(m.kind(g_)[:2], m)
        ops = [{"op": "change_comp", "name": g_, "comp": spec, "group": m.groups[g_], "rail": m.rails.get(g_, "")}]
        if self.r.chance(0.3):
            # the freed name is taken over as a rail name by another component
            hosts = [n for n in self.nonload(m) if n not in (g_, d, mux) and not m.rails.get(n)]
            if hosts:
                y = self.r.pick(hosts)
                ops.append({"op": "change_comp", "name": y, "comp": copy.deepcopy(m.comps[y]), "group": m.groups[y], "rail": g_})
        ops.append({"op": "del_comp", "name": d, "del_childs": False})
        return ops

    def light_load(self, m, vnom):
        """A load drawing 10..100 uA: hundreds of them fit on any supply."""
        k = self.r.pick(["ILoad", "PLoad", "RLoad"])
        name = self.fresh(k[0] + "L", m)
        a = max(abs(vnom), 0.5)
        if k == "ILoad":
            p = {"ii": self.eng(-5, -5)}
        elif k == "PLoad":
            p = {"pwr": self.eng(-5, -5) * a}
        else:
            p = {"rs": a / self.eng(-5, -5)}
        return mk(k, name, p, None)

    def op_bulk_wide(self, m, n):
        """n light loads under the first source (and under one series element
        when there is one): later components get node numbers above 256."""
        par = [m.sources()[0]] + [x for x in self.nonload(m) if m.kind(x) not in ("Source", "PMux")][:1]
        ops = []
        for i in range(n):
            p = par[i % len(par)]
            ops.append({"op": "add_comp", "parent": p, "comp": self.light_load(m, self.vnom(m, p)), "group": "", "rail": ""})
        return {"op": "bulk", "ops": ops, "what": "wide"}

    def op_bulk_chain(self, m, depth):
        """A daisy chain `depth` series elements long with a light load tapped
        every few links and one at the end."""
        src = m.sources()[0]
        vn = self.vnom(m, src)
        ops, prev = [], src
        for i in range(depth):
            k = "RLoss" if (i % 7 or "VLoss" not in self.cfg["kinds"]) else "VLoss"
            name = self.fresh("CH", m)
            spec = mk(k, name, {"rs": 0.002} if k == "RLoss" else {"vdrop": 0.001}, None)
            ops.append({"op": "add_comp", "parent": prev, "comp": spec, "group": "", "rail": ""})
            if i % 9 == 4:
                ops.append({"op": "add_comp", "parent": name, "comp": self.light_load(m, vn), "group": "", "rail": ""})
            prev = name
        ops.append({"op": "add_comp", "parent": prev, "comp": mk("ILoad", self.fresh("IL", m), {"ii": self.eng(-3, -3)}, None), "group": "", "rail": ""})
        return {"op": "bulk", "ops": ops, "what": "chain%d" % depth}

    def op_move(self, m):
        """Move a leaf under another parent: delete it and add it again (the
        component count is the same before and after)."""
        leaves = [n for n in m.order if not m.children(n) and m.kind(n) != "Source" and len(m.parents[n]) == 1]
        if not leaves:
            return None
        n = self.r.pick(leaves)
        targets = [p for p in self.can_parent(m) if p != n and p != m.parents[n][0]]
        if not targets:
            return None
        t = self.r.pick(targets)
        spec = copy.deepcopy(m.comps[n])
        self.pending.append({"op": "add_comp", "parent": self.parent_ref(m, t), "comp": spec, "group": m.groups[n], "rail": m.rails[n]})
        return {"op": "del_comp", "name": n, "del_childs": True, "note": "move"}

    def op_near_limits(self, m):
        """Replace a component by itself with limits placed around the values
        of its last solved row (inside / outside / exactly on / negative)."""
        if not self.last_table:
            return None
        cands = [n for n in m.order if n in self.last_table]
        if not cands:
            return None
        n = self.r.pick(cands)
        spec = copy.deepcopy(m.comps[n])
        lim = self.near_limits(spec["kind"], self.last_table[n])
        if not lim:
            return None
        spec["lim"] = lim
        return {"op": "change_comp", "name": n, "comp": spec, "group": m.groups[n], "rail": m.rails[n], "note": "near_limits", "keep_conf": True}

    def op_del(self, m):
        cands = [n for n in m.order if not (m.kind(n) == "Source" and len(m.sources()) < 2)]
        if not cands:
            return None
        n = self.r.pick(cands)
        if len(m.sources()) >= 2 and self.r.chance(0.12):
            # the oldest source with everything below it: its node indices are
            # free for whatever is added next
            n = m.sources()[0]
        dc = True if m.kind(n) == "Source" else self.r.chance(0.5)
        mux = m.mux()
        if mux is not None and self.r.chance(0.4):
            # remove links of a chain that leads into the mux, keeping what is
            # below: one link, or two successive links top-down
            chain = [a for i in m.parents[mux] for a in ([i] + m.ancestors(i)) if m.kind(a) != "Source"]
            pairs = [(a, b) for a in chain for b in m.children(a) if b in chain]
            direct = [(a, b) for a, b in pairs if mux in m.children(b) and len(m.parents[mux]) > 1]
            if direct and self.r.chance(0.8):
                pairs = direct
            if pairs and self.r.chance(0.6):
                a, b = self.r.pick(pairs)
                n, dc = a, False
                if not m.del_ambiguous(a, False):
                    self.pending.append({"op": "del_comp", "name": b, "del_childs": False})
            elif chain:
                n = self.r.pick(chain)
                dc = False
        if m.del_ambiguous(n, dc):
            if self.cfg.get("collapse_inputs"):
                return {"op": "del_comp", "name": n, "del_childs": False, "collapse": True}
            dc = True
        return self.flagform({"op": "del_comp", "name": n, "del_childs": dc})

    # ---- rejected calls: every rejection class constructible at the state
    def reject_classes(self, m):
        out = self._reject_classes(m)
        for _, op in out:
            if op["op"] == "del_comp":
                self.flagform(op)
            p_ = op.get("parent")
            if isinstance(p_, str) and m.rails.get(p_) and self.r.chance(0.5):
                op["parent"] = m.rails[p_]  # the same parent, addressed by its rail
        return out

    def _reject_classes(self, m):
        """All rejection-class instances constructible at the current state."""
        out = []
        names = m.order
        loads = [n for n in names if m.kind(n) in LOADS]
        nonl = self.nonload(m)
        rails = [r for r in m.rails.values() if r]
        anyn = self.r.pick(names)
        anyp = self.r.pick(nonl)
        vn = self.vnom(m, anyp)

        def c(kind="PLoad", name=None):
            return self.comp(kind, m, vn, name=name)

        out.append(("unknown_parent", {"op": "add_comp", "parent": "no such", "comp": c(), "group": "", "rail": ""}))
        out.append(("dup_name", {"op": "add_comp", "parent": anyp, "comp": c(self.r.pick(["PLoad", "RLoss", "Converter"]), name=anyn), "group": "g", "rail": ""}))
        if rails:
            out.append(("name_is_rail", {"op": "add_comp", "parent": anyp, "comp": c("RLoss", name=self.r.pick(rails)), "group": "", "rail": ""}))
            out.append(("rail_is_rail", {"op": "add_comp", "parent": anyp, "comp": c("RLoss"), "group": "", "rail": self.r.pick(rails)}))
            out.append(("del_by_rail", {"op": "del_comp", "name": self.r.pick(rails), "del_childs": self.r.chance(0.5)}))
            out.append(("change_by_rail", {"op": "change_comp", "name": self.r.pick(rails), "comp": c("RLoss"), "group": "", "rail": ""}))
            out.append(("cphase_by_rail", {"op": "set_comp_phases", "name": self.r.pick(rails), "conf": ["a"]}))
            out.append(("source_rail_in_use", {"op": "add_source", "comp": self.source(m), "group": "", "rail": self.r.pick(rails)}))
        own = [n for n in names if m.rails.get(n)]
        if own:
            x = self.r.pick(own)
            kx = m.kind(x)
            bad = self.source(m, name=m.rails[x]) if kx != "Source" else c("RLoss", name=m.rails[x])
            out.append(("rename_to_own_rail_rejected", {"op": "change_comp", "name": x, "comp": bad, "group": "", "rail": ""}))
        out.append(("rail_is_name", {"op": "add_comp", "parent": anyp, "comp": c("RLoss"), "group": "", "rail": anyn}))
        nm = self.fresh("X", m)
        out.append(("name_eq_rail", {"op": "add_comp", "parent": anyp, "comp": c("VLoss", name=nm), "group": "", "rail": nm}))
        out.append(("source_under_parent", {"op": "add_comp", "parent": anyp, "comp": self.source(m), "group": "", "rail": ""}))
        if loads:
            out.append(("child_under_load", {"op": "add_comp", "parent": self.r.pick(loads), "comp": c(self.r.pick(["PLoad", "RLoss"])), "group": "", "rail": ""}))
        if len(nonl) >= 2:
            two = self.r.sample(nonl, 2)
            out.append(("list_parent_nonmux", {"op": "add_comp", "parent": two, "comp": c("RLoss"), "group": "", "rail": ""}))
        if loads and m.mux() is None and nonl:
            out.append(("mux_input_is_load", {"op": "add_comp", "parent": [self.r.pick(loads), self.r.pick(nonl)], "comp": c("PMux"), "group": "", "rail": ""}))
        if m.mux() is None:
            out.append(("empty_parent_list", {"op": "add_comp", "parent": [], "comp": c("PMux"), "group": "", "rail": ""}))
        railed = [n for n in nonl if m.rails.get(n)]
        if railed and m.mux() is None:
            rn = self.r.pick(railed)
            more = [x for x in nonl if x != rn]
            out.append(("dup_parent_by_rail_alias", {"op": "add_comp", "parent": [rn, m.rails[rn]] + ([self.r.pick(more)] if more else []), "comp": c("PMux"), "group": "", "rail": ""}))
        out.append(("dup_parents", {"op": "add_comp", "parent": [anyp, anyp], "comp": c("PMux"), "group": "", "rail": ""}))
        if m.mux() is not None:
            out.append(("second_mux", {"op": "add_comp", "parent": [anyp] if self.r.chance(0.5) else anyp, "comp": c("PMux"), "group": "", "rail": ""}))
            out.append(("mux_to_other", {"op": "change_comp", "name": m.mux(), "comp": c("PSwitch"), "group": "", "rail": ""}))
            other = [n for n in nonl if m.kind(n) not in ("PMux", "Source")]
            if other:
                out.append(("change_to_second_mux", {"op": "change_comp", "name": self.r.pick(other), "comp": c("PMux"), "group": "", "rail": ""}))
        src = self.r.pick(m.sources())
        out.append(("source_to_other", {"op": "change_comp", "name": src, "comp": c("RLoss"), "group": "", "rail": ""}))
        out.append(("nonsource_to_add_source", {"op": "add_source", "comp": c("RLoss"), "group": "", "rail": ""}))
        out.append(("dup_source_name", {"op": "add_source", "comp": self.source(m, name=anyn), "group": "", "rail": ""}))
        out.append(("change_unknown", {"op": "change_comp", "name": "no such", "comp": c(), "group": "", "rail": ""}))
        others = [n for n in names if n != anyn]
        if others:
            tgt = self.r.pick(others)
            k = m.kind(tgt)
            if k == "Source":
                newc = self.source(m, name=anyn)
            elif k == "PMux":
                newc = c("PMux", name=anyn)
            else:
                newc = c("RLoss" if m.children(tgt) else "PLoad", name=anyn)
            out.append(("change_dup_name", {"op": "change_comp", "name": tgt, "comp": newc, "group": "", "rail": ""}))
            # unchanged name, rail colliding with another component's name or rail
            tgt2 = self.r.pick([n for n in nonl]) if nonl else None
            if tgt2:
                coll = [x for x in m.used_names() if x != tgt2 and x != m.rails.get(tgt2)]
                if coll:
                    k2 = m.kind(tgt2)
                    if k2 == "Source":
                        nc = self.source(m, name=tgt2)
                    elif k2 == "PMux":
                        nc = c("PMux", name=tgt2)
                        self.mux_rs(nc, len(m.parents[tgt2]))
                    else:
                        nc = c("RLoss", name=tgt2)
                    out.append(("change_rail_collides", {"op": "change_comp", "name": tgt2, "comp": nc, "group": "", "rail": self.r.pick(sorted(coll))}))
        inner = [n for n in nonl if m.children(n) and m.kind(n) not in ("Source", "PMux")]
        if inner:
            t = self.r.pick(inner)
            out.append(("change_inner_to_load", {"op": "change_comp", "name": t, "comp": c(self.r.pick(list(LOADS)), name=t if self.r.chance(0.5) else None), "group": "", "rail": ""}))
        nsrc = [n for n in names if m.kind(n) != "Source"]
        if nsrc:
            out.append(("change_to_source", {"op": "change_comp", "name": self.r.pick(nsrc), "comp": self.source(m), "group": "", "rail": ""}))
        if len(m.sources()) < 2:
            out.append(("del_last_source", {"op": "del_comp", "name": src, "del_childs": True}))
        out.append(("del_source_keep_childs", {"op": "del_comp", "name": src, "del_childs": False}))
        out.append(("del_unknown", {"op": "del_comp", "name": "no such", "del_childs": True}))
        out.append(("phases_one", {"op": "set_sys_phases", "phases": {"only": 1.0}}))
        out.append(("phases_na", {"op": "set_sys_phases", "phases": {"a": 1.0, "N/A": 2.0}}))
        out.append(("phases_nondict", {"op": "set_sys_phases", "phases": ["a", "b"]}))
        out.append(("cphase_unknown", {"op": "set_comp_phases", "name": "no such", "conf": ["a"]}))
        sl = [n for n in names if m.kind(n) in ("RLoss", "VLoss")]
        if sl:
            out.append(("cphase_loss", {"op": "set_comp_phases", "name": self.r.pick(sl), "conf": ["a"]}))
        out.append(("cphase_badtype", {"op": "set_comp_phases", "name": anyn, "conf": "a"}))
        return out

    # ---- phases
    def ops_sleeper_overload(self, m):
        """A supply of its own feeds a series element that sleeps in one phase;
        the load below it is configured with a value for that phase which the
        element could not carry if it were on (rs * i above the supply
        voltage / far beyond what the supply side can deliver).  The steady
        state of that phase is 'element off, load unpowered'.  Framed by two
        plain observations: the second must solve if the first did."""
        phs = list(m.sys_phases.keys())
        if len(phs) < 2:
            return []
        R = self.r
        off = R.pick(phs)
        on = [p for p in phs if p != off]
        vo = R.pick([3.3, 5.0, 12.0, 24.0]) * (-1.0 if R.chance(0.2) else 1.0)
        src = mk("Source", self.fresh("S", m), {"vo": vo, "rs": 0.0}, None)
        kind = R.wpick([("PSwitch", 3), ("Converter", 1), ("LinReg", 1)])
        light = abs(vo) * 0.002
        if kind == "PSwitch":
            rs = R.pick([0.5, 2.0, 10.0])
            sl = mk("PSwitch", self.fresh("SW", m), {"rs": rs, "iis": R.pick([0.0, 1e-6])}, None)
            heavy = abs(vo) / rs * R.pick([1.0, 1.5, 10.0])
            light = abs(vo) / rs * 0.02
        elif kind == "Converter":
            sl = mk("Converter", self.fresh("CV", m), {"vo": vo / 2.0, "eff": 0.9, "iis": R.pick([0.0, 1e-6])}, None)
            heavy = 1e4
        else:
            sl = mk("LinReg", self.fresh("LR", m), {"vo": vo / 2.0, "vdrop": abs(vo) / 10.0, "iis": R.pick([0.0, 1e-6])}, None)
            heavy = 1e4
        deep = []
        below = sl["name"]
        if kind == "PSwitch" and R.chance(0.2):
            # the dead part is two levels deep: an always-on regulator and a
            # second series element between the sleeper and the load
            sl["p"]["rs"] = 0.01
            mid = mk("LinReg", self.fresh("LR", m), {"vo": vo / 2.0, "vdrop": abs(vo) / 10.0}, None)
            ser = mk("PSwitch", self.fresh("SW", m), {"rs": 1.0}, None)
            deep = [mid, ser]
            heavy = abs(vo) / 2.0 * R.pick([1.0, 1.5, 10.0])
            light = abs(vo) / 2.0 * 0.02
            below = ser["name"]
        load = mk("ILoad", self.fresh("IL", m), {"ii": light}, None)
        conf = {p: light for p in on}
        conf[off] = heavy
        obs = {"op": "observe", "ta": 25.0, "sh": 1, "kw": {}}
        obs2 = dict(obs, sleeper={"off": off, "sleeper": sl["name"], "load": load["name"], "src": src["name"], "limit": light * 1.0001, "deep": [d["name"] for d in deep]})
        chain = []
        par = sl["name"]
        for d in deep:
            chain.append({"op": "add_comp", "parent": par, "comp": d, "group": "", "rail": ""})
            par = d["name"]
        return [obs,
                {"op": "add_source", "comp": src, "group": "", "rail": ""},
                {"op": "add_comp", "parent": src["name"], "comp": sl, "group": "", "rail": ""}] + chain + [
                {"op": "add_comp", "parent": below, "comp": load, "group": "", "rail": ""},
                {"op": "set_comp_phases", "name": sl["name"], "conf": on},
                {"op": "set_comp_phases", "name": load["name"], "conf": conf},
                obs2]

    def op_sys_phases(self, m, clear=False):
        if clear:
            return {"op": "set_sys_phases", "phases": {}}
        n = self.r.randint(2, 4)
        names = self.r.sample(PHASE_NAMES, n)
        if self.r.chance(0.12):
            # a phase may carry the name of a component (separate name spaces)
            cn = self.r.pick(m.order)
            if cn != "N/A" and cn not in names:
                names[self.r.randint(0, n - 1)] = cn
        ph = {p: self.r.pick([0.1, 1.0, 5.5, 30.0, 120.0, 3600.0]) for p in names}
        if n >= 3 and self.cfg.get("zero_phase") and self.r.chance(0.3):
            ph[self.r.pick(names)] = 0.0  # a phase that takes no time (the others do)
        return {"op": "set_sys_phases", "phases": ph}

    def op_comp_phases(self, m, name=None, clear=False):
        cands = [n for n in m.order if m.kind(n) in LIST_PHASE_KINDS or m.kind(n) in LOADS]
        if not cands:
            return None
        n = name or self.r.pick(cands)
        k = m.kind(n)
        phs = list(m.sys_phases.keys()) or PHASE_NAMES[:2]
        if clear:
            return {"op": "set_comp_phases", "name": n, "conf": [] if k in LIST_PHASE_KINDS else {}}
        sub = self.r.sample(phs, self.r.randint(1, len(phs)))
        sub = [p for p in phs if p in sub]
        if k in LIST_PHASE_KINDS:
            if self.r.chance(0.15):
                # a list may name phases the system does not (yet) define:
                # the component is then simply not active in the defined ones
                foreign = [p for p in PHASE_NAMES + ["night"] if p not in phs]
                if foreign:
                    extra = self.r.pick(foreign)
                    sub = [extra] if self.r.chance(0.4) else sub + [extra]
            return {"op": "set_comp_phases", "name": n, "conf": sub}
        s = m.comps[n]
        si = self.scale_i()
        z = lambda x: 0.0 if self.r.chance(0.1) else x  # an explicit 0 is a configured value
        if k == "PLoad":
            conf = {p: z(self.eng(-3, -1) * si) for p in sub}
        elif k == "ILoad":
            conf = {p: z(self.eng(-3, -2) * si) for p in sub}
        else:
            conf = {p: round(abs(s["p"]["rs"]) * self.r.pick([0.5, 2.0, 10.0]), 3) for p in sub}
        return {"op": "set_comp_phases", "name": n, "conf": conf}

    # ---- domain faults
    def op_domfault(self, m):
        kinds = ["kill_source", "sleep", "dropout", "overload"]
        kind = self.r.pick(kinds)
        if kind == "kill_source":
            s = self.r.pick(m.sources())
            spec = copy.deepcopy(m.comps[s])
            spec["p"]["vo"] = 0.0
            return {"op": "change_comp", "name": s, "comp": spec, "group": m.groups[s], "rail": m.rails[s], "note": "kill_source"}
        if kind == "sleep" and m.sys_phases:
            c = [n for n in m.order if m.kind(n) in LIST_PHASE_KINDS]
            n = self.r.pick(c)
            phs = list(m.sys_phases.keys())
            act = self.r.sample(phs, self.r.randint(1, len(phs) - 1))
            return {"op": "set_comp_phases", "name": n, "conf": [p for p in phs if p in act], "note": "sleep"}
        if kind == "dropout":
            c = [n for n in m.order if m.kind(n) == "LinReg"]
            if c:
                n = self.r.pick(c)
                spec = copy.deepcopy(m.comps[n])
                vin = abs(self.vnom(m, m.parents[n][0]))
                spec["p"]["vo"] = (1 if spec["p"]["vo"] >= 0 else -1) * round(vin + self.r.pick([0.0, 0.5, 2.0]), 3)
                spec["p"]["vdrop"] = round(min(self.r.pick([0.2, 1.0, vin, vin * 1.5]), abs(spec["p"]["vo"]) * 0.99), 4)
                return {"op": "change_comp", "name": n, "comp": spec, "group": m.groups[n], "rail": m.rails[n], "note": "dropout"}
        if kind == "overload" or True:
            return self.op_overload(m)

    def op_overload(self, m):
        cands = self.can_parent(m)
        if not cands:
            return None
        p = self.r.pick(cands)
        v = max(abs(self.vnom(m, p)), 0.5)
        k = self.r.pick(["PLoad", "ILoad"])
        spec = self.comp(k, m, v)
        if k == "PLoad":
            spec["p"]["pwr"] = round(v * v * self.r.pick([0.5, 2.0, 10.0, 100.0]), 4)
        else:
            spec["p"]["ii"] = round(v * self.r.pick([0.5, 2.0, 10.0, 100.0]), 4)
            rs = m.comps[p]["p"].get("rs")
            if isinstance(rs, (int, float)) and abs(rs) > 0 and self.r.chance(0.6):
                # right around the point where the parent's series drop eats its input
                spec["p"]["ii"] = float("%.6g" % (v / abs(rs) * self.r.pick([0.3, 0.45, 0.6, 0.75, 0.9, 1.2, 1.6])))
        return {"op": "add_comp", "parent": p, "comp": spec, "group": "", "rail": "", "note": "overload"}

    # ---- analyses
    def solve_kwargs(self, m, full=False):
        kw = {}
        if self.r.chance(0.4):
            kw["ta"] = self.r.pick([-40.0, 0.0, 25.0, 60.0, 85.0])
        if self.r.chance(0.4):
            kw["energy"] = True
        if self.r.chance(0.25):
            kw["tags"] = {"Tag A": self.r.pick(["x", 1, 2.5]), "run": "r1"}
        if m.sys_phases and self.r.chance(0.35):
            kw["phase"] = self.r.pick(list(m.sys_phases.keys()))
        return kw

    def op_analyse(self, m):
        kind = self.r.wpick(
            [("solve", 5), ("rail_rep", 2), ("params", 1), ("limits", 1), ("phases", 1), ("tree", 1), ("save", 1),
             ("make_diag", 1), ("make_hdiag", 0.7), ("plot_interp", 1.2)]
        )
        return self.op_analysis_of(m, kind)

    def op_analysis_of(self, m, kind):
        op = {"op": kind}
        if kind in ("solve", "rail_rep"):
            op["kw"] = self.solve_kwargs(m)
        elif kind == "params":
            op["limits"] = self.r.chance(0.5)
        elif kind == "tree":
            op["name"] = self.r.pick(m.order) if self.r.chance(0.3) else ""
        elif kind == "save":
            op["fname"] = "s%d.json" % self.r.randint(0, 3)
            op["indent"] = self.r.pick([4, 2, 0])
        elif kind in ("make_diag", "make_hdiag"):
            op["fname"] = self.r.pick(["d.raw", "d.json", "d.svg", None])
            op["group"] = self.r.chance(0.7)
            op["config"] = self.diag_config(m)
        elif kind == "plot_interp":
            tabbed = [n for n in m.order if any(isinstance(v, dict) for v in m.comps[n]["p"].values())]
            op["name"] = self.r.pick(tabbed) if tabbed and self.r.chance(0.8) else self.r.pick(m.order)
            op["plot3d"] = self.r.chance(0.3)
            op["inpdata"] = self.r.chance(0.7)
        if self.r.chance(0.2):
            op["twice"] = True
        if self.cfg.get("env_faults") and self.r.chance(self.cfg["env_faults"]):
            if kind == "save":
                op["fault"] = self.r.pick([
                    {"on": "disk", "kind": "open_fail", "exc": "PermissionError", "mode": "w"},
                    {"on": "disk", "kind": "open_fail", "exc": "ENOSPC", "mode": "w"},
                    {"on": "disk", "kind": "write_fail", "n": self.r.randint(1, 30)},
                ])
                op.pop("twice", None)
            elif kind in ("make_diag", "make_hdiag"):
                op["fname"] = self.r.pick(["d.json", "d.svg", None])
                op["fault"] = self.r.pick([
                    {"on": "proc", "kind": "no_dot"},
                    {"on": "proc", "kind": "dot_exit"},
                    {"on": "disk", "kind": "open_fail", "exc": "PermissionError", "mode": "w"},
                ])
                op.pop("twice", None)
        return op

    def op_batt(self, m, table=None, want_fault=None):
        """A batt_life call against a scripted battery sized for 5-60 steps."""
        srcs = m.sources()
        loaded = [s for s in srcs if any(m.kind(d) in LOADS for d in m.descendants(s))]
        bat = self.r.pick(loaded or srcs)
        if not self.r.chance(0.9):
            bat = self.r.pick(srcs)
        ref = bat
        if m.rails.get(bat) and self.r.chance(0.4):
            ref = m.rails[bat]
        v = abs(m.comps[bat]["p"]["vo"]) or 3.7
        phs = list(m.sys_phases.keys())
        iest = 0.01
        if table is not None:
            cur = []
            for ph in table.phases:
                r = table.comp[ph].get(bat)
                if r and isinstance(r["Iout (A)"], (int, float)):
                    cur.append((ph, r["Iout (A)"]))
            if cur:
                iest = max(c for _, c in cur)
                if phs:
                    q = sum(c * m.sys_phases.get(ph, 0.0) for ph, c in cur) / 3600.0
                else:
                    q = None
        if iest <= 0.0:
            return None
        kind = self.r.wpick([("linear", 3), ("stepped", 2), ("imp", 2), ("cc", 2 if phs else 0), ("early", 0.6)])
        steps = self.r.randint(3, 40)
        if self.cfg.get("chain"):
            steps = self.r.randint(2, 5)  # every step is a few hundred sweeps here
        model = {"kind": kind, "v0": round(v * self.r.pick([1.0, 1.1, 0.95]), 4), "rs0": self.r.pick([0.0, 0.05, 0.1, 0.2])}
        model["v1"] = round(model["v0"] * self.r.pick([0.6, 0.75, 0.85]), 4)
        if kind == "imp" or (kind in ("stepped", "cc") and self.r.chance(0.5)):
            # also on voltage plateaus: same voltage reported again with another impedance
            model["rs1"] = model["rs0"] + self.r.pick([0.05, 0.1, 0.3])
        if kind == "stepped":
            model["steps"] = self.r.randint(2, 5)
        cutoff = round(model["v1"] + (model["v0"] - model["v1"]) * self.r.pick([0.1, 0.5, 0.9]), 4)
        if phs:
            cyc = max(1, steps // len(phs))
            qcyc = sum(m.sys_phases.values()) / 3600.0 * max(iest, 1e-6)
            if table is not None and "q" in dir() and q:
                qcyc = q
            model["cap"] = float("%.6g" % (qcyc * cyc * self.r.pick([0.7, 1.0, 1.3])))
            model["slope"] = self.r.pick([1.0, 1.0, 2.0, 0.5])
            if kind == "cc":
                cutoff = round(model["v0"] * 0.5, 4)
        else:
            model["cap"] = self.r.pick([0.05, 0.5, 2.2, 150.0])
            model["slope"] = round(1000.0 / steps, 4)
        if kind in ("linear", "stepped") and self.r.chance(0.08):
            # a fitted model that dips below 0 V while charge is left; the run is
            # asked to go on "until the voltage collapses" (cutoff 0)
            model["v1"] = round(-0.3 * model["v0"], 4)
            model["slope"] = max(model["slope"], 1.0)
            cutoff = 0.0
        elif self.r.chance(0.05):
            # a battery on a negative rail with a cut-off it is already below
            model["v0"], model["v1"] = -abs(model["v0"]), -abs(model["v1"])
            cutoff = self.r.pick([0.0, abs(model["v1"]), round(0.5 * model["v0"], 4)])
        if kind == "early":
            which = self.r.pick(["empty", "below", "equal"])
            if which == "empty":
                model["cap"] = 0.0 if self.r.chance(0.5) else -0.1
                model["cap"] = model["cap"] or 0.0
            elif which == "below":
                cutoff = round(model["v0"] * 1.2, 4)
            else:
                cutoff = model["v0"]
            if model["cap"] == 0.0:
                model["cap"] = 0.0
        op = {"op": "batt_life", "battery": ref, "cutoff": cutoff, "model": model, "limit": 150}
        if self.r.chance(0.3):
            op["tags"] = {"Battery": self.r.pick(["small", "big"]), "n": 1}
        if self.r.chance(0.25):
            model["mutable_state"] = True  # probe/deplete return one list object, updated in place
        if self.r.chance(0.5):
            op["clock"] = self.r.pick(["mono", "stall", "back", "jump"])
        return op

    def op_batt_nonsource(self, m):
        ns = [n for n in m.order if m.kind(n) != "Source"]
        rails = [m.rails[n] for n in ns if m.rails.get(n)]
        if not ns:
            return None
        ref = self.r.pick(ns + rails)
        return {"op": "batt_life", "battery": ref, "cutoff": 1.0, "model": {"kind": "cc", "v0": 3.7, "v1": 3.0, "rs0": 0.1, "cap": 0.1}, "limit": 50}

    def diag_config(self, m):
        if self.r.chance(0.4):
            return {}
        conf = {"__default__": True, "node": {}, "cluster": {}, "graph": {}, "edge": {}}
        if self.r.chance(0.5):
            conf["graph"]["rankdir"] = self.r.pick(["LR", "TB", "BT", "RL"])
        colors = ["coral", "aquamarine", "deeppink", "gold", "gray80"]
        for _ in range(self.r.randint(0, 3)):
            n = self.r.pick(m.order)
            key = self.r.pick([n, m.kind(n)])
            attr = self.r.pick(["fillcolor", "shape", "penwidth", "fontcolor"])
            val = {"fillcolor": self.r.pick(colors), "shape": self.r.pick(["ellipse", "box", "hexagon"]), "penwidth": self.r.pick(["0.5", "3"]), "fontcolor": self.r.pick(["red", "blue"])}[attr]
            conf["node"].setdefault(key, {})[attr] = val
        if self.r.chance(0.25):
            # the same attribute at name level and at kind level, the name entry
            # written first (precedence is by level, not by position)
            n = self.r.pick(m.order)
            conf["node"].pop(n, None)
            conf["node"].pop(m.kind(n), None)
            conf["node"][n] = {"fillcolor": "gold", "shape": "hexagon"}
            conf["node"][m.kind(n)] = {"fillcolor": "coral", "shape": "ellipse"}
        if self.r.chance(0.3):
            conf["node"]["__default_override__"] = {"shape": self.r.pick(["oval", "box3d"])}
        if self.r.chance(0.2):
            # the caller's configuration need not carry every library default
            conf["__remove__"] = self.r.pick([("node", "style"), ("node", "penwidth"), ("edge", "headport"), ("graph", "nodesep")])
        gs = sorted(set(g for g in m.groups.values() if g))
        if gs and self.r.chance(0.5):
            conf["cluster"][self.r.pick(gs)] = {"fillcolor": self.r.pick(colors)}
        if self.r.chance(0.3):
            conf["edge"]["color"] = self.r.pick(["red", "gray40"])
        return conf


def model_vnom(m, n, _d=0):
    """Nominal output voltage estimate of component n from the model."""
    s = m.comps[n]
    k = s["kind"]
    if k == "Source":
        return s["p"]["vo"]
    if not m.parents[n] or _d > 20:
        return 0.0
    vin = model_vnom(m, m.parents[n][0], _d + 1)
    if k == "Converter":
        return s["p"]["vo"]
    if k == "LinReg":
        vo = s["p"]["vo"]
        mag = min(abs(vo), max(abs(vin) - abs(s["p"].get("vdrop", 0.0)), 0.0))
        return mag if vo >= 0 else -mag
    if k == "Rectifier":
        return abs(vin)
    return vin


def row_quantities(row):
    """The ten limit quantities of a solved row, from its own cells."""
    from .observe import num

    g = lambda c: row.get(c) if num(row.get(c)) else None
    vi, vo, ii, io = g("Vin (V)"), g("Vout (V)"), g("Iin (A)"), g("Iout (A)")
    p, l = g("Power (W)"), g("Loss (W)")
    q = {"vi": vi, "vo": vo, "ii": ii, "io": io, "pi": p, "pl": l}
    q["vd"] = abs(vi) - abs(vo) if vi is not None and vo is not None else None
    q["po"] = p - l if p is not None and l is not None else None
    q["tr"] = g("Temp. rise (°C)")
    q["tp"] = g("Peak temp. (°C)")
    return q
