"""One integer decides everything: splitmix64-derived per-run PRNGs.

Python's hash() is never used for derivation.  Nothing in here reads a clock.
"""
import random

MASK = (1 << 64) - 1


def splitmix64(x):
    x = (x + 0x9E3779B97F4A7C15) & MASK
    z = x
    z = ((z ^ (z >> 30)) * 0xBF58476D1CE4E5B9) & MASK
    z = ((z ^ (z >> 27)) * 0x94D049BB133111EB) & MASK
    return z ^ (z >> 31)


def derive(seed, *path):
    """Derive a 64-bit value from a seed and a path of integers/strings."""
    x = splitmix64(seed & MASK)
    for p in path:
        if isinstance(p, str):
            for ch in p.encode():
                x = splitmix64(x ^ ch)
        else:
            x = splitmix64(x ^ (int(p) & MASK))
    return x


def run_rng(seed, prop, run_index):
    """The PRNG of one run: a pure function of (seed, property id, run index)."""
    return random.Random(derive(seed, prop, run_index))


class R:
    """Thin convenience wrapper around random.Random with a fixed draw vocabulary."""

    def __init__(self, rnd):
        self.r = rnd

    def chance(self, p):
        return self.r.random() < p

    def pick(self, seq):
        seq = list(seq)
        return seq[self.r.randrange(len(seq))]

    def wpick(self, pairs):
        """pairs: list of (item, weight)."""
        tot = sum(w for _, w in pairs)
        x = self.r.random() * tot
        acc = 0.0
        for it, w in pairs:
            acc += w
            if x < acc:
                return it
        return pairs[-1][0]

    def randint(self, a, b):
        return self.r.randint(a, b)

    def uniform(self, a, b):
        return self.r.uniform(a, b)

    def shuffle(self, lst):
        self.r.shuffle(lst)

    def sample(self, seq, k):
        return self.r.sample(list(seq), k)
