"""Clause checkers over a solved table, judged against the reference model and
the reference laws.  Every failure is (property id, clause id, detail)."""
import math
from .laws import row_law, is_active, uses_interval, sgn
from .spec import LOADS, APPLICABLE, LIMITS_DEFAULT, TYPE_OF, eff_params
from .observe import num, Table, frame_rows, _warnset


class Tol:
    def __init__(self, vtol=1e-6, itol=1e-6, atol=0.0, mult=20.0):
        self.rv = mult * vtol
        self.ri = mult * itol
        self.av = 4.0 * atol
        self.ai = 4.0 * atol
        self.rp = mult * (vtol + itol)

    def v(self, scale):
        return self.rv * abs(scale) + self.av

    def i(self, scale):
        return self.ri * abs(scale) + self.ai + self.rv * abs(scale)

    def p(self, vscale, iscale):
        return self.rp * abs(vscale * iscale) + self.av * abs(iscale) + self.ai * abs(vscale) + 1e-15


AMP_RTOL = 2e-5
AMP_ATOL = 1e-15


def within(x, iv, tol):
    return iv[0] - tol <= x <= iv[1] + tol


def selected_input(model, rows, mux):
    """Index of the first declared mux input that is live (Vout cell != 0)."""
    for k, p in enumerate(model.parents[mux]):
        r = rows.get(p)
        if r is not None and num(r["Vout (V)"]) and r["Vout (V)"] != 0.0:
            return k
    return -1


def feeder(model, rows, n):
    """(parent name, selected index) actually feeding n in this table."""
    ps = model.parents[n]
    if not ps:
        return None, 0
    if len(ps) > 1 or model.kind(n) == "PMux":
        k = selected_input(model, rows, n)
        if k < 0:
            return None, -1
        return ps[k], k
    return ps[0], 0


def true_domain(model, rows, n):
    """Source that actually powers n (None if a dead mux is on the way)."""
    seen = 0
    while model.parents[n]:
        p, k = feeder(model, rows, n)
        if p is None:
            return None
        n = p
        seen += 1
        if seen > 100:
            return None
    return n


def expected_iout(model, rows, n):
    tot = 0.0
    for c in model.children(n):
        rc = rows.get(c)
        if rc is None:
            return None
        if len(model.parents[c]) > 1:
            p, k = feeder(model, rows, c)
            if p != n:
                continue
        tot += rc["Iin (A)"]
    return tot


def physical(model, rows):
    """Every series element keeps its polarity (C01's quantifier)."""
    for n, r in rows.items():
        k = model.kind(n)
        if k in SERIES:
            vi, vo = r["Vin (V)"], r["Vout (V)"]
            if not (num(vi) and num(vo)):
                return False
            if inverted(k, vi, vo):
                return False
    return True


SERIES = ("RLoss", "VLoss", "PSwitch", "PMux", "Rectifier", "Source")


def inverted(k, vi, vo):
    if k == "Rectifier":
        return vo < 0
    return vo != 0 and vi != 0 and sgn(vo) != sgn(vi)


def amplified(vi, vo, tol=None):
    if tol is not None:
        return abs(vo) > abs(vi) * (1 + tol.rv) + tol.av + 1e-15
    return abs(vo) > abs(vi) * (1 + AMP_RTOL) + AMP_ATOL


def check_table(model, table, ta, tol, enabled, out, stats, phase_arg=""):
    """Run the row/aggregate clause checkers enabled for this run."""
    coherent = model.phases_coherent()
    for ph in table.phases:
        rows = table.comp[ph]
        # ---- structure of the table itself (C16: lists exactly the live components)
        if "C16" in enabled:
            if set(rows) != set(model.comps):
                out.append(("C16", "solve-lists-live", "phase %r: table rows %s vs model %s" % (ph, sorted(set(rows) ^ set(model.comps))[:6], len(model.comps))))
                return
        if set(rows) != set(model.comps):
            return
        row_enabled = enabled
        if not coherent:
            # the accounting identities of C02 are read off the row's own
            # cells and hold however a phase list is interpreted
            stats["skip_incoherent_phase_state"] += 1
            row_enabled = enabled & {"C02"}
            if not row_enabled:
                continue
        for n, r in rows.items():
            for c in ("Vin (V)", "Vout (V)", "Iin (A)", "Iout (A)", "Power (W)", "Loss (W)"):
                if not num(r[c]) or math.isnan(r[c]) or math.isinf(r[c]):
                    if "C03" in enabled:
                        out.append(("C03", "finite", "%s %s = %r" % (n, c, r[c])))
                    return
        phys = physical(model, rows)
        if "C03" in enabled:
            for n, r in rows.items():
                k = model.kind(n)
                if k in SERIES:
                    vi, vo = r["Vin (V)"], r["Vout (V)"]
                    if inverted(k, vi, vo) or amplified(vi, vo, tol):
                        out.sig = row_sig(model.comps[n])
                        out.append(("C03", "series-inverted-or-amplified", "phase %r %s (%s): Vin=%r Vout=%r" % (ph, n, k, vi, vo)))
                        return
        if not phys:
            stats["nonphysical_tables"] += 1
            continue
        _check_rows(model, table, ph, rows, ta, tol, row_enabled, out, stats)
        if out:
            return
    if out:
        return
    if coherent and ("C07" in enabled or "C09" in enabled):
        _check_aggregates(model, table, enabled, out, stats, phase_arg)


def row_sig(spec):
    """Machine-readable signature of the input class a row belongs to (used
    only to recognise recorded known findings)."""
    if spec["kind"] == "Source":
        p = eff_params(spec)
        if p["vo"] < 0 and p["rs"] != 0:
            return "source-negative-vo-with-rs"
    return ""


class _Out(list):
    """Violation list that stamps the current row's signature on entries."""

    sig = ""

    def append(self, item):
        if len(item) == 3:
            item = item + (self.sig,)
        list.append(self, item)


def _check_rows(model, table, ph, rows, ta, tol, enabled, out, stats):
    E = enabled
    src_power = 0.0
    load_power = 0.0
    loss_sum = 0.0
    cons_tol = 0.0
    multi_src = len(model.sources()) > 1
    for n, r in rows.items():
        spec = model.comps[n]
        k = spec["kind"]
        conf = model.phase_conf[n]
        out.sig = row_sig(spec)
        vin, vout, iin, iout = r["Vin (V)"], r["Vout (V)"], r["Iin (A)"], r["Iout (A)"]
        P, L, eff = r["Power (W)"], r["Loss (W)"], r["Efficiency (%)"]
        if r["Type"] != TYPE_OF[k]:
            if "C16" in E:
                out.append(("C16", "type-cell", "%s: Type %r, model kind %s" % (n, r["Type"], k)))
            return
        par, sel = feeder(model, rows, n)
        # ---------- neighbours
        if k != "Source":
            exp_vin = rows[par]["Vout (V)"] if par is not None else 0.0
            if "C03" in E and "C01" not in E and "C05" not in E and vin != exp_vin:
                out.append(("C03", "steady-state-vin-is-feeder-vout", "phase %r %s: Vin=%r, feeder %r Vout=%r" % (ph, n, vin, par, exp_vin)))
                return
            if "C01" in E and k != "PMux" and vin != exp_vin:
                out.append(("C01", "vin-equals-parent-vout", "phase %r %s: Vin=%r parent %s Vout=%r" % (ph, n, vin, par, exp_vin)))
                return
            if "C04" in E and exp_vin == 0.0:
                bad = [c for c in ("Vin (V)", "Vout (V)", "Iin (A)", "Iout (A)", "Power (W)", "Loss (W)") if r[c] != 0.0]
                if bad:
                    out.append(("C04", "dead-supply-all-zero", "phase %r %s (%s): its supply %r is at 0 V but the row shows %s" % (ph, n, k, par, {c: r[c] for c in bad})))
                    return
            if "C05" not in E and "C01" in E and k == "PMux" and vin != exp_vin:
                out.append(("C01", "vin-equals-parent-vout", "phase %r %s: Vin=%r, selected input %r Vout=%r" % (ph, n, vin, par, exp_vin)))
                return
            if "C05" in E and k == "PMux" and vin != exp_vin:
                out.append(("C05", "mux-vin-is-selected-input", "phase %r %s: Vin=%r selected %r Vout=%r" % (ph, n, vin, par, exp_vin)))
                return
            # parent / rail-in cell
            cell = table.parent_ref(r)
            decl = par if par is not None else (model.parents[n][0] if model.parents[n] else "")
            want = model.rails.get(decl, "") if table.by_rail else decl
            if cell != want:
                if k == "PMux" and len(model.parents[n]) > 1:
                    if "C05" in E and par is not None:
                        out.append(("C05", "mux-parent-cell", "phase %r %s: %s cell %r, selected input %r (want %r)" % (ph, n, "Rail in" if table.by_rail else "Parent", cell, par, want)))
                        return
                elif "C01" in E:
                    out.append(("C01", "parent-cell", "phase %r %s: cell %r want %r" % (ph, n, cell, want)))
                    return
        ei = expected_iout(model, rows, n)
        if ei is not None and ("C01" in E or "C05" in E or "C03" in E or "C04" in E):
            ok = abs(iout - ei) <= (tol.i(max(abs(ei), abs(iout))) if k == "Source" else 1e-12 + 1e-9 * abs(ei))
            if not ok:
                hasmux = any(len(model.parents[c]) > 1 for c in model.children(n))
                pid = "C05" if (hasmux and "C05" in E) else "C01"
                if pid not in E and "C03" in E:
                    out.append(("C03", "steady-state-iout-is-sum-of-children", "phase %r %s: Iout=%r children sum=%r" % (ph, n, iout, ei)))
                    return
                if pid not in E and "C04" in E:
                    if hasmux:
                        # a (sleeping) mux draws from its selected input only
                        out.append(("C04", "mux-draws-from-one-supply", "phase %r %s: Iout=%r but its children draw %r (a mux below it draws from its selected input only)" % (ph, n, iout, ei)))
                        return
                    continue_ = True
                if pid in E:
                    out.append((pid, "iout-equals-sum-of-children-iin", "phase %r %s: Iout=%r children sum=%r" % (ph, n, iout, ei)))
                    return
        # ---------- own law
        law = row_law(spec, conf, ph, vin, iout, sel=max(sel, 0), iin_row=iin, vout_row=vout)
        dead_supply = (k != "Source" and vin == 0.0) or (k == "Source" and law["dead"])
        if uses_interval(spec):
            stats["interval_rows"] += 1
        if dead_supply or (k == "PMux" and sel < 0):
            if "C04" in E or "C05" in E:
                bad = [c for c in ("Vout (V)", "Iin (A)", "Iout (A)", "Power (W)", "Loss (W)") if r[c] != 0.0]
                if bad:
                    pid = "C05" if (k == "PMux" and "C05" in E and sel < 0) else "C04"
                    if pid in E:
                        out.append((pid, "dead-supply-all-zero", "phase %r %s (%s): %s" % (ph, n, k, {c: r[c] for c in bad})))
                        return
            stats["dead_rows"] += 1
        elif law.get("sleep"):
            if "C04" in E:
                s = law["iin"][0]
                if not (vout == 0.0 and iin == s and abs(P - s * abs(vin)) <= 1e-12 * abs(P) + 1e-18 and abs(L - s * abs(vin)) <= 1e-12 * abs(L) + 1e-18):
                    out.append(("C04", "inactive-draws-sleep-current", "phase %r %s: Vout=%r Iin=%r P=%r L=%r want iis=%r |Vin|=%r" % (ph, n, vout, iin, P, L, s, abs(vin))))
                    return
            stats["sleep_rows"] += 1
        if "C01" in E or "C06" in E or "C03" in E or "C05" in E:
            vs = max(abs(vin), abs(vout), abs(law["vout"][0]), abs(law["vout"][1]))
            if k == "Source":
                vs = max(vs, abs(eff_params(spec)["vo"]))
            is_ = max(abs(iin), abs(iout), abs(law["iin"][1]))
            pid = "C01"
            if "C01" not in E:
                pid = "C06" if "C06" in E else ("C03" if "C03" in E else "C05")
            if pid == "C05" and k != "PMux":
                pass
            else:
                if not within(vout, law["vout"], tol.v(vs)):
                    out.append((pid, "vout-law" if pid != "C03" else "converged-vout", "phase %r %s (%s): Vout=%r law=%r (Vin=%r Iout=%r) tol=%g" % (ph, n, k, vout, law["vout"], vin, iout, tol.v(vs))))
                    return
                if not within(iin, law["iin"], tol.i(is_)):
                    out.append((pid, "iin-law" if pid != "C03" else "converged-iin", "phase %r %s (%s): Iin=%r law=%r (Vin=%r Iout=%r) tol=%g" % (ph, n, k, iin, law["iin"], vin, iout, tol.i(is_))))
                    return
                if k == "Source" and vin != law["vin"][0]:
                    vsc = abs(law["vin"][0])
                    if abs(vin - law["vin"][0]) > tol.v(vsc):
                        out.append((pid, "source-vin-is-nominal", "phase %r %s: Vin cell %r, vo=%r" % (ph, n, vin, law["vin"][0])))
                        return
        # ---------- accounting (C02)
        if "C02" in E:
            a = abs(vin) if k != "Source" else abs(eff_params(spec)["vo"])
            ptol = tol.p(max(a, abs(vout)), max(abs(iin), abs(iout)))
            if k in LOADS:
                cons = abs(vin) * iin
                pl = eff_params(spec)["loss"]
                ok = (abs(L - cons) <= ptol and P == 0.0) if pl else (abs(P - cons) <= ptol and L == 0.0)
                if not ok:
                    out.append(("C02", "load-consumption-in-one-column", "phase %r %s: P=%r L=%r consumption=%r loss-mode=%r" % (ph, n, P, L, cons, pl)))
                    return
                diss = cons
            else:
                handed = abs(vout) * iout
                if abs((P - L) - handed) > ptol:
                    out.append(("C02", "power-minus-loss-is-handed-on", "phase %r %s (%s): P=%r L=%r |Vout|*Iout=%r tol=%g" % (ph, n, k, P, L, handed, ptol)))
                    return
                if L < -ptol or L > P + ptol:
                    out.append(("C02", "loss-within-0-power", "phase %r %s (%s): P=%r L=%r" % (ph, n, k, P, L)))
                    return
                diss = L
                if P > 0:
                    e = 100.0 * (P - L) / P
                    etol = 1e-6 + 100.0 * 2 * ptol / P
                    if abs(eff - e) > etol or eff > 100.0 + etol or eff < -etol:
                        out.append(("C02", "efficiency", "phase %r %s (%s): eff=%r want %r (P=%r L=%r)" % (ph, n, k, eff, e, P, L)))
                        return
                # power cell is |Vin| x Iin
                if abs(P - a * iin) > ptol:
                    out.append(("C02", "power-is-vin-times-iin", "phase %r %s (%s): P=%r |Vin|*Iin=%r" % (ph, n, k, P, a * iin)))
                    return
            if k != "Source" and "Temp. rise (°C)" in r:
                rt = eff_params(spec)["rt"]
                tr, tp = r["Temp. rise (°C)"], r["Peak temp. (°C)"]
                if num(tr) and num(tp):
                    live = not dead_supply and not (k == "PMux" and sel < 0)
                    want_tr = rt * diss
                    ttol = rt * ptol + 1e-12
                    if abs(tr - want_tr) > ttol:
                        out.append(("C02", "temp-rise", "phase %r %s: tr=%r want rt*diss=%r" % (ph, n, tr, want_tr)))
                        return
                    if live and abs(tp - (ta + tr)) > 1e-9 * max(1.0, abs(ta)):
                        out.append(("C02", "peak-temp", "phase %r %s: tp=%r want ta+tr=%r" % (ph, n, tp, ta + tr)))
                        return
            if k == "Source":
                src_power += P
                cons_tol += ptol
            elif k in LOADS:
                load_power += abs(vin) * iin
                cons_tol += ptol
            if k not in LOADS:
                loss_sum += L
                cons_tol += ptol
        # ---------- domain cell (C07)
        mux_ = model.mux()
        c05_dom = "C05" in E and mux_ is not None and (n == mux_ or mux_ in model.ancestors(n))
        if ("C07" in E or c05_dom) and multi_src and table.has_domain:
            d = true_domain(model, rows, n)
            cell = r.get("Domain")
            if c05_dom and "C07" not in E:
                if d is not None and cell != d:
                    out.append(("C05", "mux-domain-is-selected-inputs-source", "phase %r %s: Domain %r, powered by %r through the selected input" % (ph, n, cell, d)))
                    return
            elif d is None:
                if cell not in [a for a in model.ancestors(n) + [n] if model.kind(a) == "Source"]:
                    out.append(("C07", "domain-cell", "phase %r %s: Domain %r is no ancestor source" % (ph, n, cell)))
                    return
            elif cell != d:
                out.append(("C07", "domain-cell", "phase %r %s: Domain %r, powered by %r" % (ph, n, cell, d)))
                return
        # ---------- warnings (C09)
        if "C09" in E:
            w = expected_warnings(model, n, r, ph)
            if w is not None and spec.get("lim"):
                from .gen import row_quantities as _rq

                q = _rq(r)
                for key_, lv in spec["lim"].items():
                    v_ = q.get(key_)
                    if v_ is not None and key_ in APPLICABLE[k]:
                        a_ = abs(v_) if key_ != "tp" else v_
                        for b_ in lv:
                            bb = abs(b_) if key_ != "tp" else b_
                            if (a_ == bb) or (bb != 0 and 0.5 <= abs(a_ / bb) <= 2.0):
                                stats["c09_near_limit_rows"] += 1
                                nt_ = getattr(stats, "nt", None)
                                if nt_ is not None:
                                    side = "on" if a_ == bb else ("out" if (a_ > bb) == (b_ is lv[1]) else "in")
                                    nt_.add(("c09", k, key_, side, "hi" if b_ is lv[1] else "lo", vin < 0 if k != "Source" else eff_params(spec)["vo"] < 0, key_ in w[0]))
                                break
            if w is not None:
                got = _warnset(r["Warnings"])
                if got != w[0]:
                    if not (w[1] and (got ^ w[0]) <= w[1]):
                        out.append(("C09", "row-warnings", "phase %r %s (%s): Warnings %r, expected %s (limits %r)" % (ph, n, k, r["Warnings"], sorted(w[0]), spec.get("lim"))))
                        return
                    stats["c09_boundary_skips"] += 1
    out.sig = ""
    if "C02" in E:
        t = table.total.get(ph)
        all_loss = sum(rows[n_]["Loss (W)"] for n_ in rows)
        if t is not None and num(t.get("Power (W)")) and num(t.get("Loss (W)")):
            if abs(t["Power (W)"] - src_power) > cons_tol + 1e-12 * abs(src_power) or abs(t["Loss (W)"] - all_loss) > cons_tol + 1e-12 * abs(all_loss):
                for s_ in model.sources():
                    out.sig = out.sig or row_sig(model.comps[s_])
                out.append(("C02", "system-total-row", "phase %r System total: P=%r L=%r, sources deliver %r, all losses %r" % (ph, t["Power (W)"], t["Loss (W)"], src_power, all_loss)))
                return
        if abs(src_power - (load_power + loss_sum)) > cons_tol + 1e-15:
            out.append(("C02", "system-conservation", "phase %r: sources %r != loads %r + losses %r (tol %g)" % (ph, src_power, load_power, loss_sum, cons_tol)))
            return


def expected_warnings(model, n, r, ph):
    """(expected token set, set of tokens too close to a boundary to judge)."""
    from .gen import row_quantities

    spec = model.comps[n]
    k = spec["kind"]
    conf = model.phase_conf[n]
    if k not in ("Source", "RLoss", "VLoss") and conf and ph not in conf:
        return (frozenset(), frozenset())
    q = row_quantities(r)
    hidden_tr = False
    if "Temp. rise (°C)" not in r or not num(r.get("Temp. rise (°C)")):
        # temperature columns hidden (no rise above zero): tr = 0 up to a
        # convergence residue of either sign; tp unknown here
        q["tr"] = 0.0 if k != "Source" else None
        q["tp"] = None
        hidden_tr = True
    lim = spec.get("lim") or {}
    exp, fuzzy = set(), set()
    for key in APPLICABLE[k]:
        v = q.get(key)
        lo, hi = lim.get(key, LIMITS_DEFAULT[key])
        if v is None:
            if key == "tp":
                if key in lim:
                    fuzzy.add(key)
                continue
            continue
        if key == "tp":
            a, l0, l1 = v, lo, hi
        else:
            a, l0, l1 = abs(v), abs(lo), abs(hi)
        if a > l1 or a < l0:
            exp.add(key)
        for b in (l0, l1):
            if a != b and abs(a - b) < 1e-9 * max(abs(a), abs(b), 1e-30):
                fuzzy.add(key)
            if key == "tr" and hidden_tr and abs(b) < 1e-6:
                fuzzy.add(key)  # a bound at zero against a value known only as 'about zero'
    return (frozenset(exp), frozenset(fuzzy))


def _check_aggregates(model, table, enabled, out, stats, phase_arg):
    E = enabled
    out.sig = ""
    for s_ in model.sources():
        out.sig = out.sig or row_sig(model.comps[s_])
    srcs = model.sources()
    multi = len(srcs) > 1
    tot_t = sum(model.sys_phases.values()) if model.sys_phases else 0.0
    has_energy = "24h energy (Wh)" in table.cols

    def energy(ph, p):
        if ph == "":
            return p * 24.0
        return p * 24.0 * model.sys_phases[ph] / tot_t

    per_phase = {}
    for ph in table.phases:
        rows = table.comp[ph]
        if not physical(model, rows):
            return
        attrib = {s: [] for s in srcs}
        undecided = []
        for n in rows:
            d = true_domain(model, rows, n)
            if d is None:
                undecided.append(n)
            else:
                attrib[d].append(n)
        all_loss = sum(rows[n]["Loss (W)"] for n in rows)
        all_pwr = sum(rows[s]["Power (W)"] for s in srcs)
        scale = max(abs(all_pwr), abs(all_loss), 1e-12)
        tol = 1e-9 * scale + 1e-15
        if "C07" in E:
            if multi:
                if set(table.subsys[ph]) != set(srcs):
                    out.append(("C07", "subsystem-rows", "phase %r: subsystem rows %s, sources %s" % (ph, sorted(table.subsys[ph]), srcs)))
                    return
                for s in srcs:
                    sr = table.subsys[ph][s]
                    r = rows[s]
                    und = sum(abs(rows[n]["Loss (W)"]) for n in undecided)
                    want_loss = sum(rows[n]["Loss (W)"] for n in attrib[s])
                    checks = [("Vin (V)", r["Vin (V)"], 0.0), ("Iout (A)", r["Iout (A)"], 0.0), ("Power (W)", r["Power (W)"], 0.0), ("Loss (W)", want_loss, und)]
                    for c, want, slack in checks:
                        if not num(sr[c]) or abs(sr[c] - want) > tol + slack + 1e-9 * abs(want):
                            out.append(("C07", "subsystem-" + c.split(" ")[0].lower(), "phase %r Subsystem %s: %s=%r want %r (attributed %s)" % (ph, s, c, sr[c], want, attrib[s])))
                            return
                    P, L = sr["Power (W)"], sr["Loss (W)"]
                    if P > 0:
                        e = 100.0 * (P - L) / P
                        if abs(e) < 0.01:  # all power is loss: sign of the rounding residue is not demanded
                            e = abs(e)
                        if abs(sr["Efficiency (%)"] - e) > 1e-6 or sr["Efficiency (%)"] > 100.0 + 1e-9:
                            out.append(("C07", "subsystem-efficiency", "phase %r Subsystem %s: eff=%r want %r" % (ph, s, sr["Efficiency (%)"], e)))
                            return
                    if has_energy and not isinstance(sr["24h energy (Wh)"], (int, float)):
                        out.append(("C07", "subsystem-energy", "phase %r Subsystem %s: energy cell %r is not a number" % (ph, s, sr["24h energy (Wh)"])))
                    elif has_energy and abs(sr["24h energy (Wh)"] - energy(ph, P)) > 1e-9 * abs(energy(ph, P)) + 1e-15:
                        out.append(("C07", "subsystem-energy", "phase %r Subsystem %s: E=%r want %r" % (ph, s, sr["24h energy (Wh)"], energy(ph, P))))
                        return
            t = table.total.get(ph)
            if t is None:
                out.append(("C07", "total-row", "phase %r: no System total row" % (ph,)))
                return
            if abs(t["Power (W)"] - all_pwr) > tol or abs(t["Loss (W)"] - all_loss) > tol:
                out.append(("C07", "total-sums", "phase %r total: P=%r L=%r want P=%r L=%r" % (ph, t["Power (W)"], t["Loss (W)"], all_pwr, all_loss)))
                return
            if t["Power (W)"] > 0:
                e = 100.0 * (t["Power (W)"] - t["Loss (W)"]) / t["Power (W)"]
                if abs(e) < 0.01:
                    e = abs(e)
                if abs(t["Efficiency (%)"] - e) > 1e-6 or t["Efficiency (%)"] > 100.0 + 1e-9:
                    out.append(("C07", "total-efficiency", "phase %r total: eff=%r want %r" % (ph, t["Efficiency (%)"], e)))
                    return
            if has_energy:
                for n, r in rows.items():
                    w = energy(ph, r["Power (W)"])
                    if not isinstance(r["24h energy (Wh)"], (int, float)):
                        out.append(("C07", "row-energy", "phase %r %s: energy cell %r is not a number" % (ph, n, r["24h energy (Wh)"])))
                    elif abs(r["24h energy (Wh)"] - w) > 1e-9 * abs(w) + 1e-18:
                        out.append(("C07", "row-energy", "phase %r %s: E=%r want %r" % (ph, n, r["24h energy (Wh)"], w)))
                        return
                w = energy(ph, t["Power (W)"])
                if not isinstance(t["24h energy (Wh)"], (int, float)):
                    out.append(("C07", "total-energy", "phase %r total: energy cell %r is not a number" % (ph, t["24h energy (Wh)"])))
                elif abs(t["24h energy (Wh)"] - w) > 1e-9 * abs(w) + 1e-18:
                    out.append(("C07", "total-energy", "phase %r total: E=%r want %r" % (ph, t["24h energy (Wh)"], w)))
                    return
            per_phase[ph] = t
        if "C09" in E:
            warned = {n for n in rows if rows[n]["Warnings"] != ""}
            t = table.total.get(ph)
            if t is not None and (t["Warnings"] == "Yes") != bool(warned):
                out.append(("C09", "total-rollup", "phase %r total Warnings=%r, warned rows %s" % (ph, t["Warnings"], sorted(warned))))
                return
            if multi and set(table.subsys[ph]) == set(srcs):
                for s in srcs:
                    sr = table.subsys[ph][s]
                    mine = bool(warned & set(attrib[s]))
                    maybe = bool(warned & set(undecided))
                    got = sr["Warnings"] == "Yes"
                    if got != mine and not (maybe and got):
                        out.append(("C09", "subsystem-rollup", "phase %r Subsystem %s Warnings=%r, warned attributed rows %s" % (ph, s, sr["Warnings"], sorted(warned & set(attrib[s])))))
                        return
    if "C07" in E and len(table.phases) > 1 and phase_arg == "":
        a = table.average
        if a is None:
            out.append(("C07", "average-row", "no System average row with %d phases" % len(table.phases)))
            return
        for c in ("Power (W)", "Loss (W)", "Efficiency (%)"):
            want = sum(per_phase[ph][c] * model.sys_phases[ph] for ph in table.phases) / tot_t
            if not num(a[c]) or abs(a[c] - want) > 1e-9 * abs(want) + 1e-15:
                out.append(("C07", "average-" + c.split(" ")[0].lower(), "System average %s=%r want %r" % (c, a[c], want)))
                return
        if has_energy:
            cells_ = [per_phase[ph]["24h energy (Wh)"] for ph in table.phases] + [a["24h energy (Wh)"]]
            if not all(isinstance(c_, (int, float)) for c_ in cells_):
                out.append(("C07", "average-energy", "energy cells %r are not all numbers" % (cells_,)))
                return
            es = sum(per_phase[ph]["24h energy (Wh)"] for ph in table.phases)
            if abs(a["24h energy (Wh)"] - es) > 1e-9 * abs(es) + 1e-15 or abs(a["24h energy (Wh)"] - 24.0 * a["Power (W)"]) > 1e-9 * abs(es) + 1e-15:
                out.append(("C07", "average-energy", "System average E=%r, sum of phase energies %r, 24*P=%r" % (a["24h energy (Wh)"], es, 24.0 * a["Power (W)"])))
                return


def check_rail_rep(model, table, rr, same_as_solve, out, stats):
    """C08: rail_rep() against the solve() table of the same state."""
    any_rail = any(v for v in model.rails.values())
    if not any_rail:
        if not same_as_solve:
            out.append(("C08", "no-rails-equals-solve", "no rails defined but rail_rep() differs from solve()"))
        return
    # rails feeding at least one component, per phase
    want = {}
    for ph in table.phases:
        rows = table.comp[ph]
        for n, r in rows.items():
            ri = r.get("Rail in", "")
            if ri:
                want.setdefault((ph, ri), []).append(n)
    # the same set derived from the reference model: every named rail whose
    # owner actually feeds a component in the phase (a mux counts on the rail
    # of its selected input)
    want_m, extras = set(), set()
    for ph in table.phases:
        rows = table.comp[ph]
        for n in model.order:
            par, _ = feeder(model, rows, n)
            if par is None and model.parents[n]:
                if len(model.parents[n]) == 1 and model.kind(n) != "PMux":
                    par = model.parents[n][0]
                else:
                    # a mux without a live input is fed by no rail: whichever of
                    # its inputs' rails the table books it on is accepted
                    extras.update((ph, model.rails[q]) for q in model.parents[n] if model.rails.get(q))
            if par is not None and model.rails.get(par):
                want_m.add((ph, model.rails[par]))
    if not (want_m <= set(want) <= (want_m | extras)):
        out.append(("C08", "rail-in-column-follows-configured-rails", "rails feeding components per model %s, per the table's Rail in column %s" % (sorted(want_m)[:6], sorted(want)[:6])))
        return
    if rr is None:
        if want:
            out.append(("C08", "rails-listed", "rail_rep() returned None but rails %s feed components" % sorted(want)[:4]))
        return
    cols, rrows = frame_rows(rr)
    if "Rail" not in cols:
        if want:
            out.append(("C08", "rails-listed", "rail_rep() is not a rail table though rails feed components"))
        return
    got = {}
    for r in rrows:
        got[(r.get("Phase", ""), r["Rail"])] = r
    if set(got) != set(want):
        # a rail with consumers in some phases is listed for every phase
        extra = set(got) - set(want)
        missing = set(want) - set(got)
        if missing or any(all(w[1] != e[1] for w in want) for e in extra):
            out.append(("C08", "rails-listed", "rail rows %s vs rails feeding components %s" % (sorted(got)[:6], sorted(want)[:6])))
            return
    owner = {v: k for k, v in model.rails.items() if v}
    for key, r in got.items():
        ph, rail = key
        rows = table.comp[ph]
        cons = want.get(key, [])
        if not cons:
            continue
        o = owner.get(rail)
        if o is None or o not in rows:
            out.append(("C08", "rail-owner", "rail %r has no owner in the model" % rail))
            return
        wv = rows[o]["Vout (V)"]
        si = sum(rows[n]["Iin (A)"] for n in cons)
        sp = sum(rows[n]["Power (W)"] for n in cons)
        sl = sum(rows[n]["Loss (W)"] for n in cons)
        for c, w in (("Voltage (V)", wv), ("Current (A)", si), ("Power (W)", sp), ("Loss (W)", sl)):
            if not num(r[c]) or abs(r[c] - w) > 1e-9 * abs(w) + 1e-15:
                out.append(("C08", "rail-" + c.split(" ")[0].lower(), "phase %r rail %r: %s=%r want %r over %s" % (ph, rail, c, r[c], w, cons)))
                return
        ww = set()
        for n in cons:
            ww |= _warnset(rows[n]["Warnings"])
        if _warnset(r["Warnings"]) != ww:
            out.append(("C08", "rail-warnings", "phase %r rail %r: Warnings %r want union %s over %s" % (ph, rail, r["Warnings"], sorted(ww), cons)))
            return
        stats["rail_rows_checked"] += 1
        if len(cons) >= 2 or ww:
            stats["rail_nontrivial"] += 1
