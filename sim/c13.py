"""C13: components stored as TOML files on the simulated disk; intact files
must equal the constructor call, damaged files (every line-boundary tear, a
lost section header, a lost mandatory key, a value-type flip) must raise and
never build a third component."""
import copy
import json
import os
import sys
import time
import traceback
from collections import Counter
from concurrent.futures import ProcessPoolExecutor
import multiprocessing

from .rng import run_rng, R
from .spec import KINDS, DEFAULTS, MANDATORY, TOML_SECTION, APPLICABLE, LOADS, mk
from .gen import Gen, default_cfg
from . import observe as O

VERIF = os.path.dirname(os.path.dirname(os.path.abspath(__file__)))
TYPE_FLIP_KINDS = [k for k in KINDS if k != "LinReg"]


# --------------------------------------------------------------------------
def fmt(v):
    if isinstance(v, bool):
        return "true" if v else "false"
    if isinstance(v, str):
        return json.dumps(v)
    if isinstance(v, (int, float)):
        return repr(float(v))
    if isinstance(v, list):
        return "[" + ", ".join(fmt(x) for x in v) + "]"
    raise AssertionError(v)


def write_toml(kind, params, limits, order=None):
    """Lines of a TOML file in the documented layout: [kind] scalars, then
    [kind.<table>] sub-tables, then [limits]."""
    sec = TOML_SECTION[kind]
    lines = ["[%s]" % sec]
    keys = order or list(params.keys())
    for k in keys:
        if not isinstance(params[k], dict):
            lines.append("%s = %s" % (k, fmt(params[k])))
    for k in keys:
        if isinstance(params[k], dict):
            lines.append("[%s.%s]" % (sec, k))
            for kk, vv in params[k].items():
                lines.append("%s = %s" % (kk, fmt(vv)))
    if limits is not None:
        lines.append("[limits]")
        for k, v in limits.items():
            lines.append("%s = %s" % (k, fmt(v)))
    return lines


# --------------------------------------------------------------------------
def probe_systems(S, C, comp_factory, kind):
    """Observation of a component through a small solved system."""
    obs = []
    for load in (0.05, 0.4):
        comp = comp_factory()
        if kind == "Source":
            s = S.System("p", comp)
            s.add_comp(comp._params["name"], comp=C.PLoad("L", pwr=load))
        elif kind in LOADS:
            s = S.System("p", C.Source("S", vo=9.0, rs=0.1))
            s.add_comp("S", comp=comp)
        elif kind == "PMux":
            s = S.System("p", C.Source("S", vo=0.0))
            s.add_source(C.Source("S2", vo=9.0))
            s.add_comp(["S", "S2"], comp=comp)
            s.add_comp(comp._params["name"], comp=C.PLoad("L", pwr=load))
        else:
            s = S.System("p", C.Source("S", vo=9.0, rs=0.1))
            s.add_comp("S", comp=comp)
            s.add_comp(comp._params["name"], comp=C.PLoad("L", pwr=load))
            s.add_comp(comp._params["name"], comp=C.ILoad("L2", ii=load / 5))
        try:
            df = s.solve(ta=30.0)
            sol = O.canon_table(df)
        except Exception as e:  # noqa
            sol = ("EXC", type(e).__name__)
        obs.append({"params": O.canon_params(s.params(limits=True), mask=False), "limits": O.canon_params(s.limits(), mask=False), "solve": sol})
    return obs


def obs_equal(a, b):
    for x, y in zip(a, b):
        if x["params"] != y["params"] or x["limits"] != y["limits"]:
            return "params()/limits() rows differ"
        if isinstance(x["solve"], tuple) or isinstance(y["solve"], tuple):
            if x["solve"] != y["solve"]:
                return "solve outcome differs: %r vs %r" % (x["solve"], y["solve"])
            continue
        d = O.diff_canon(x["solve"], y["solve"], rtol=0.0, atol=0.0, eff_atol=0.0)
        if d:
            return "solve differs: " + d
    return None


def gen_case(rnd, idx):
    """A component specification: kind, parameter dict (some optional keys
    absent), optional limits."""
    cfg = default_cfg()
    cfg["tables"] = 0.5
    cfg["tables2d_general"] = 0.5
    cfg["limits"] = 0.5
    cfg["rt"] = 0.5
    cfg["loss_flag"] = 0.4
    g = Gen(rnd, cfg)
    kind = KINDS[idx % len(KINDS)]
    if kind == "Source":
        spec = g.source(None, name="X")
    else:
        spec = g.comp(kind, None, 9.0, name="X")
        if kind == "PMux":
            g.mux_rs(spec, 2)
    if kind == "LinReg" and "ig" in spec["p"] and not isinstance(spec["p"]["ig"], dict) and rnd.random() < 0.3:
        # both spellings present: the constructor lets a non-zero iq win
        spec["p"]["iq"] = round(abs(spec["p"]["ig"]) * 3.0 + 1e-4, 9)
    if spec.get("lim") and rnd.random() < 0.25:
        # pairs written for a negative rail (numeric order) or high-first
        k0 = sorted(spec["lim"])[0]
        if k0 != "tp":
            a, b = spec["lim"][k0]
            spec["lim"][k0] = [-b, -a] if rnd.random() < 0.5 else [b, a]
    if kind == "Rectifier" and "vdrop" not in spec["p"]:
        spec["p"]["vdrop"] = 0.0  # mandatory in the file schema
    if kind == "Rectifier" and not isinstance(spec["p"]["vdrop"], dict) and spec["p"]["vdrop"] != 0.0 and rnd.random() < 0.25:
        # diode mode ignores rs/ig/iq: whatever the constructor accepts there
        # (here a table it would refuse in MOSFET mode) the file may hold too
        spec["p"]["ig"] = {"vi": [5.0], "io": [0.1, 0.05], "ig": [[1e-3, 2e-3]]}
    if kind == "Converter" and isinstance(spec["p"]["eff"], (int, float)):
        spec["p"]["eff"] = float(spec["p"]["eff"])
    return spec


def run_case(spec, damages="all"):
    """Returns (violations, stats, nontrivial keys)."""
    from .world import World

    out, stats, nt = [], Counter(), set()
    kind = spec["kind"]
    with World() as w:
        S, C = w.S, w.C
        cls = getattr(C, kind)
        import toml

        def construct(params, limits):
            kw = copy.deepcopy(params)
            if limits is not None:
                kw["limits"] = copy.deepcopy(limits)
            return cls("X", **kw)

        def load(text):
            w.disk.files["c.toml"] = text
            return cls.from_file("X", fname="c.toml")

        params, limits = spec["p"], spec.get("lim")
        from .spec import LIMITS_DEFAULT as DOC_LIMITS

        def defaults_intact(where):
            if C.LIMITS_DEFAULT != DOC_LIMITS:
                out.append(("C13", "documented-defaults-unchanged", "%s %s: components.LIMITS_DEFAULT is now %s" % (kind, where, {k: v for k, v in C.LIMITS_DEFAULT.items() if DOC_LIMITS.get(k) != v}), ""))
                C.LIMITS_DEFAULT.clear()
                C.LIMITS_DEFAULT.update(copy.deepcopy(DOC_LIMITS))
                return False
            return True

        lines = write_toml(kind, params, limits)
        text = "\n".join(lines) + "\n"
        # ---- intact file
        try:
            ref = probe_systems(S, C, lambda: construct(params, limits), kind)
        except Exception as e:  # noqa: constructor itself refuses: not a case
            stats["constructor_refused"] += 1
            return out, stats, nt
        try:
            got = probe_systems(S, C, lambda: load(text), kind)
            d = obs_equal(ref, got)
            if d:
                out.append(("C13", "intact-file-equals-constructor", "%s %s: %s" % (kind, json.dumps(params)[:200], d), ""))
                return out, stats, nt
        except Exception as e:  # noqa
            out.append(("C13", "intact-file-loads", "%s %s raised %s(%s)" % (kind, json.dumps(params)[:200], type(e).__name__, e), ""))
            return out, stats, nt
        if not defaults_intact("after loading the intact file"):
            return out, stats, nt
        # absolute check (not relative to the constructor twin): the loaded
        # component shows the limits written in the file
        if limits:
            comp = load(text)
            from .spec import APPLICABLE

            sy = S.System("q", comp) if kind == "Source" else None
            if sy is None:
                sy = S.System("q", C.Source("S", vo=9.0))
                if kind == "PMux":
                    sy.add_comp(["S"], comp=comp)
                else:
                    sy.add_comp("S", comp=comp)
            lrow = O.canon_params(sy.limits(), mask=False)["rows"]["X"]
            unit = {"vi": "V", "vo": "V", "vd": "V", "ii": "A", "io": "A", "pi": "W", "po": "W", "pl": "W", "tr": "°C", "tp": "°C"}
            for lk, lv in limits.items():
                if lk in APPLICABLE[kind] and list(lv) != DOC_LIMITS[lk]:
                    cell = lrow.get("%s  (%s)" % (lk, unit[lk]))
                    if cell != list(lv):
                        out.append(("C13", "file-limits-shown", "%s: limits() cell %s is %r, file says %r" % (kind, lk, cell, lv), ""))
                        return out, stats, nt
        stats["intact_equal"] += 1
        absent = [k for k in DEFAULTS[kind] if k not in params]
        has_table = any(isinstance(v, dict) for v in params.values())
        keyset = tuple(sorted(params))
        if absent or has_table:
            nt.add((kind, keyset, "intact"))
        if damages == "none":
            return out, stats, nt
        sec = TOML_SECTION[kind]

        def expect_from_text(t):
            """What the documented loader semantics say about text t:
            ('raise', reason) or ('comp', params, limits)."""
            try:
                doc = toml.loads(t)
            except Exception as e:  # noqa
                return ("raise", "undecodable")
            if sec not in doc:
                return ("raise", "KeyError")
            body = doc[sec]
            for mk_ in MANDATORY[kind]:
                if mk_ not in body:
                    return ("raise", "KeyError")
            known = set(DEFAULTS[kind]) | set(MANDATORY[kind])
            p = {k: v for k, v in body.items() if k in known}
            lim = doc.get("limits")
            return ("comp", p, lim)

        def judge(t, clause, what):
            exp = expect_from_text(t)
            try:
                got = probe_systems(S, C, lambda: load(t), kind)
                raised = None
            except Exception as e:  # noqa
                raised = e
            if exp[0] == "raise":
                if raised is None:
                    out.append(("C13", clause, "%s %s: %s built a component (expected %s)" % (kind, what, json.dumps(t)[:200], exp[1]), ""))
                    return False
                if exp[1] == "KeyError" and not isinstance(raised, KeyError):
                    out.append(("C13", clause + "-keyerror", "%s %s: raised %s, not KeyError" % (kind, what, type(raised).__name__), ""))
                    return False
                stats["damage_raised"] += 1
                return True
            try:
                want = probe_systems(S, C, lambda: construct(exp[1], exp[2]), kind)
            except Exception as e:  # noqa
                if raised is None:
                    out.append(("C13", clause, "%s %s: file built a component, constructor on surviving keys raises %s" % (kind, what, type(e).__name__), ""))
                    return False
                stats["damage_raised"] += 1
                return True
            if raised is not None:
                out.append(("C13", clause, "%s %s: from_file raised %s(%s), constructor on surviving keys builds" % (kind, what, type(raised).__name__, raised), ""))
                return False
            d = obs_equal(want, got)
            if d:
                out.append(("C13", clause, "%s %s: a third component: %s" % (kind, what, d), ""))
                return False
            stats["damage_parseable_equal"] += 1
            stats["torn_file_still_parseable"] += 1
            return True

        # ---- every line-boundary tear
        for k in range(0, len(lines)):
            t = "\n".join(lines[:k]) + ("\n" if k else "")
            stats["fault:tear_at_line"] += 1
            if not judge(t, "torn-file", "torn after line %d/%d" % (k, len(lines))):
                return out, stats, nt
            nt.add((kind, keyset, "tear"))
        # ---- section header lost
        t = "\n".join(lines[1:]) + "\n"
        stats["fault:section_header_lost"] += 1
        if not judge(t, "lost-section", "section header lost"):
            return out, stats, nt
        nt.add((kind, keyset, "nosection"))
        # ---- each mandatory key lost
        for mk_ in MANDATORY[kind]:
            if isinstance(params.get(mk_), dict):
                ls = [l for l in write_toml(kind, {k: v for k, v in params.items() if k != mk_}, limits)]
            else:
                ls = [l for l in lines if not l.startswith(mk_ + " = ")]
            stats["fault:mandatory_key_lost"] += 1
            if not judge("\n".join(ls) + "\n", "missing-mandatory", "mandatory key %s lost" % mk_):
                return out, stats, nt
            nt.add((kind, keyset, "nomand"))
        # ---- surplus book-keeping entries of any TOML type: the file still holds P and L
        for where in ("section", "table"):
            extra = ['part_no = "X-%d"' % len(lines), "characterised = 2024-05-17", "checked = 1979-05-27T07:32:00", "rev = 3", "tags = [\"a\", \"b\"]"]
            if where == "section":
                ls = [lines[0]] + extra + lines[1:]
            else:
                ls = lines + ["", "[part]"] + extra
            stats["fault:surplus_entries"] += 1
            if not judge("\n".join(ls) + "\n", "surplus-entries", "book-keeping entries in the %s" % where):
                return out, stats, nt
            nt.add((kind, keyset, "surplus"))
        # ---- value-type flips (generic loader only)
        if kind in TYPE_FLIP_KINDS:
            for key, val in params.items():
                if isinstance(val, dict):
                    flips = ['"x"', "true", '""', "false"]
                elif isinstance(val, bool):
                    flips = ['"yes"', "1.0", "[1.0]", "0", '""']
                elif isinstance(val, list):
                    flips = ['"x"', "true", '""', "false"]
                else:
                    flips = [json.dumps(repr(float(val))), "true", '""', "false", "2024-05-17", "1979-05-27T07:32:00"]
                    if not (kind in ("PMux", "Rectifier") and key == "rs"):
                        flips.append("[%s]" % repr(float(val)))
                for fv in flips:
                    p2 = {k: v for k, v in params.items() if not (k == key and isinstance(v, dict))}
                    ls = write_toml(kind, p2, limits)
                    if isinstance(val, dict):
                        ls.insert(1, "%s = %s" % (key, fv))
                    else:
                        ls = [("%s = %s" % (key, fv)) if l.startswith(key + " = ") and not l.startswith(key + " = [[") else l for l in ls]
                    t = "\n".join(ls) + "\n"
                    stats["fault:value_type_flip"] += 1
                    try:
                        load(t)
                        out.append(("C13", "wrong-type-rejected", "%s: %s = %s built a component" % (kind, key, fv), ""))
                        return out, stats, nt
                    except ValueError:
                        stats["type_flip_rejected"] += 1
                    except Exception as e:  # noqa
                        out.append(("C13", "wrong-type-valueerror", "%s: %s = %s raised %s, not ValueError" % (kind, key, fv, type(e).__name__), ""))
                        return out, stats, nt
                    nt.add((kind, key, "flip"))
    return out, stats, nt


def _chunk(args):
    seed, a, b, step, budget = args
    from .runner import digest

    t0 = time.time()
    res = []
    for idx in range(a, b, step):
        if budget and time.time() - t0 > budget and res:
            break
        rnd = run_rng(seed, "C13", idx)
        try:
            spec = gen_case(rnd, idx)
            out, stats, nt = run_case(spec)
            res.append({"idx": idx, "spec": spec, "violations": [{"prop": o[0], "clause": o[1], "detail": o[2], "sig": o[3], "step": 0} for o in out], "stats": dict(stats), "nontrivial": sorted(digest(x) for x in nt), "harness": None})
        except Exception:
            res.append({"idx": idx, "spec": None, "violations": [], "stats": {}, "nontrivial": [], "harness": traceback.format_exc()[-1200:]})
    return res


def replay(path):
    with open(path) as f:
        rep = json.load(f)
    out, stats, nt = run_case(rep["spec"])
    for o in out:
        if o[1] == rep["clause"]:
            print("REPRODUCED property=C13 clause=%s" % o[1])
            print("detail:", o[2])
            print("VIOLATION property=C13 replay=%s" % path)
            return 1
    print("NOT REPRODUCED")
    return 0


def main(args):
    import subprocess

    tier = args.tier
    n = args.runs or (660 if tier == "quick" else 11000)
    budget = 45 if tier == "quick" else 500
    workers = args.workers or min(16, os.cpu_count() or 1)
    t0 = time.time()
    ctx = multiprocessing.get_context("fork")
    results = []
    with ProcessPoolExecutor(max_workers=workers, mp_context=ctx) as ex:
        futs = [ex.submit(_chunk, (args.seed, w, n, workers, budget)) for w in range(workers)]
        for f in futs:
            try:
                results += f.result(timeout=budget * 3 + 120)
            except Exception as e:  # noqa
                results.append({"idx": -1, "violations": [], "stats": {}, "nontrivial": [], "harness": "worker failed: %r" % e, "spec": None})
    results.sort(key=lambda r: r["idx"])
    viol = [(r, v) for r in results for v in r["violations"]]
    harness = [r for r in results if r.get("harness")]
    rc = 0
    if viol:
        r, v = viol[0]
        spec = copy.deepcopy(r["spec"])
        # minimise: drop optional keys / limits while the same clause fails
        changed = True
        while changed:
            changed = False
            cands = []
            if spec.get("lim"):
                c = copy.deepcopy(spec)
                c["lim"] = None
                cands.append(c)
            for k in list(spec["p"]):
                if k not in MANDATORY[spec["kind"]]:
                    c = copy.deepcopy(spec)
                    del c["p"][k]
                    cands.append(c)
            for c in cands:
                o, _, _ = run_case(c)
                if any(x[1] == v["clause"] for x in o):
                    spec = c
                    changed = True
                    break
        os.makedirs(os.path.join(VERIF, "replays"), exist_ok=True)
        path = os.path.join(VERIF, "replays", "C13-%d-%d.json" % (args.seed, r["idx"]))
        o, _, _ = run_case(spec)
        det = [x[2] for x in o if x[1] == v["clause"]]
        with open(path, "w") as f:
            json.dump({"property": "C13", "clause": v["clause"], "seed": args.seed, "run": r["idx"], "spec": spec, "detail": det[0] if det else v["detail"], "hash_seed": 0}, f, indent=1)
        p = subprocess.run([sys.executable, os.path.join(VERIF, "simcheck.py"), "--property", "C13", "--replay", path], capture_output=True, text=True, timeout=300)
        if p.returncode == 1 and "REPRODUCED" in p.stdout:
            print("violation: clause=%s run=%d" % (v["clause"], r["idx"]))
            print("detail:", det[0] if det else v["detail"])
            print("VIOLATION property=C13 replay=%s" % path)
            rc = 1
        else:
            print("HARNESS: violation did not reproduce:", p.stdout[-400:], p.stderr[-400:])
            rc = 2
    if harness and rc == 0:
        print("HARNESS errors in %d cases; first: %s" % (len(harness), harness[0]["harness"]))
        rc = 2
    agg = Counter()
    nt = set()
    for r in results:
        for k, val in r["stats"].items():
            agg[k] += val
        nt.update(r["nontrivial"])
    wall = time.time() - t0
    if not args.no_evidence:
        ok = [r for r in results if r.get("spec") and not r["violations"]]
        samples = []
        for r in ok[:2]:
            samples.append({"run": r["idx"], "kind": r["spec"]["kind"], "params": r["spec"]["p"], "limits": r["spec"]["lim"], "file": write_toml(r["spec"]["kind"], r["spec"]["p"], r["spec"]["lim"])})
        damaged = sum(v for k, v in agg.items() if k.startswith("fault:"))
        ev = {
            "property_id": "C13", "tier": tier, "seed": args.seed, "level": "fault_enumeration",
            "coverage": {
                "evaluations": int(agg.get("intact_equal", 0) + damaged),
                "distinct_nontrivial": len(nt),
                "rule": "cases = component files (11 kinds round-robin, seeded parameters: scalar/list/1-D/2-D table forms, random subset of optional keys, optional [limits]); each intact file is compared with the constructor call through params()/limits()/solve() of a probe system, then every line-boundary tear, the lost section header, every lost mandatory key and 2-3 type flips per key are enumerated; non-trivial = file with an optional key absent or a table parameter; distinct by (kind, key set, damage kind)",
                "samples": samples or [{"note": "no clean sample"}],
                "component_files": len(results),
                "files_per_hour": int(len(results) / max(wall, 1e-9) * 3600),
                "faults_fired": {k[len("fault:"):]: v for k, v in sorted(agg.items()) if k.startswith("fault:")},
                "rare_condition_probes": {"torn_file_still_parseable": agg.get("torn_file_still_parseable", 0), "type_flip_rejected": agg.get("type_flip_rejected", 0)},
                "counters": dict(sorted(agg.items())),
                "exhaustive_within_case": "all line-boundary tears, all mandatory keys, section header",
                "real_components": ["sysloss.components (from_file, constructors)", "sysloss.system (probe systems)", "toml"],
                "stubbed_components": ["disk (SimDisk behind sysloss.components.open)"],
                "harness_errors": len(harness),
            },
            "assumptions": ["the toml package decodes what this writer emits (it refuses arrays mixing ints and floats, so arrays are written as homogeneous floats)", "tears inside a line are not judged: a truncated number is a different valid file, the property does not speak about it"],
            "wall_s": round(wall, 2), "violations": len(viol),
        }
        os.makedirs(os.path.join(VERIF, "evidence"), exist_ok=True)
        with open(os.path.join(VERIF, "evidence", "C13.json"), "w") as f:
            json.dump(ev, f, indent=1, default=str)
    print("C13 %s: %d component files, %d damaged variants, %d violations, %d harness, %.1fs" % (tier, len(results), sum(v for k, v in agg.items() if k.startswith("fault:")), len(viol), len(harness), wall))
    return rc
