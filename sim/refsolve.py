"""A small reference solver on the reference model (Gauss-Seidel, own loop,
own laws).  Used only where a property needs a global statement: 'a steady
state with modest drops exists' (C03)."""
from .laws import row_law, uses_interval
from .spec import LOADS


def _mid(iv):
    return 0.5 * (iv[0] + iv[1])


def solve(model, phase="", iters=400, tol=1e-12):
    """Returns (converged, v, i, info) with v/i dicts by component name."""
    m = model
    order, placed = [], set()
    rest = list(m.order)
    while rest:
        progressed = False
        for n in list(rest):
            if all(p in placed for p in m.parents[n]):
                order.append(n)
                placed.add(n)
                rest.remove(n)
                progressed = True
        if not progressed:
            return False, {}, {}, {"why": "cycle"}
    v = {n: 0.0 for n in order}
    i = {n: 0.0 for n in order}
    sel = {n: 0 for n in order}
    kids = {n: m.children(n) for n in order}

    def feeder(n):
        ps = m.parents[n]
        if not ps:
            return None
        if m.kind(n) == "PMux" or len(ps) > 1:
            for k, p in enumerate(ps):
                if v[p] != 0.0:
                    sel[n] = k
                    return p
            sel[n] = -1
            return None
        return ps[0]

    def iout(n):
        tot = 0.0
        for c in kids[n]:
            if len(m.parents[c]) > 1:
                f = feeder(c)
                if f != n:
                    continue
            tot += i[c]
        return tot

    conv = False
    for it in range(iters):
        delta = 0.0
        for n in order:
            f = feeder(n)
            vin = v[f] if f is not None else 0.0
            law = row_law(m.comps[n], m.phase_conf[n], phase, vin, iout(n), sel=max(sel[n], 0))
            if m.kind(n) == "PMux" and sel[n] < 0:
                nv = 0.0
            else:
                nv = _mid(law["vout"])
            if m.kind(n) == "Rectifier" and nv < 0:
                return False, v, i, {"why": "rectifier overload", "at": n}
            delta = max(delta, abs(nv - v[n]) / max(abs(nv), abs(v[n]), 1e-30))
            v[n] = nv
        for n in reversed(order):
            f = feeder(n)
            vin = v[f] if f is not None else 0.0
            law = row_law(m.comps[n], m.phase_conf[n], phase, vin, iout(n), sel=max(sel[n], 0))
            ni = 0.0 if (m.kind(n) == "PMux" and sel[n] < 0) else _mid(law["iin"])
            if ni != ni or abs(ni) > 1e12:
                return False, v, i, {"why": "diverged", "at": n}
            delta = max(delta, abs(ni - i[n]) / max(abs(ni), abs(i[n]), 1e-30))
            i[n] = ni
        if delta < tol:
            conv = True
            break
    return conv, v, i, {"iters": it + 1}


def modest(model, max_drop=0.3):
    """True iff the reference solver finds, in every phase, a steady state in
    which every series element drops at most `max_drop` of its input and no
    regulator is in drop-out; exact-oracle parameters only."""
    m = model
    if not m.phases_coherent():
        return False
    if any(uses_interval(m.comps[n]) for n in m.order):
        return False
    for ph in m.phase_list():
        conv, v, i, info = solve(m, ph)
        if not conv:
            return False
        for n in m.order:
            k = m.kind(n)
            ps = m.parents[n]
            if k == "Source":
                vo = m.comps[n]["p"]["vo"]
                if vo == 0 or v[n] == 0:
                    continue
                if abs(vo - v[n]) > max_drop * abs(vo) or (vo > 0) != (v[n] > 0):
                    return False
                continue
            vin = 0.0
            for p in ps:
                if v[p] != 0.0:
                    vin = v[p]
                    break
            if vin == 0.0:
                if k in LOADS or any(m.kind(d) in LOADS for d in m.descendants(n)):
                    # a dead branch that feeds loads: 'a modest fraction of
                    # its input' means nothing at 0 V, the clause does not apply
                    return False
                continue
            if k in ("RLoss", "VLoss", "PSwitch", "PMux", "Rectifier"):
                if v[n] == 0.0:
                    from .laws import is_active

                    if k in ("PSwitch", "PMux") and not is_active(k, m.phase_conf[n], ph):
                        continue  # sleeping in this phase
                    return False  # the element drops its whole input: not modest
                # signed: the element must keep its polarity (a rectifier: stay positive)
                out_ = v[n] if k == "Rectifier" else v[n] * (1.0 if vin > 0 else -1.0)
                drop_ = abs(vin) - out_
                if drop_ < 0 or drop_ > max_drop * abs(vin):
                    return False
            if k == "LinReg":
                p_ = m.comps[n]["p"]
                if v[n] != 0.0 and abs(vin) - abs(p_.get("vdrop", 0.0)) < abs(p_["vo"]) * 1.05:
                    return False
            if k in LOADS and abs(vin) < 0.05:
                return False
    return True
