"""Canonical, comparable observations of a System through its public reports."""
import json
import math
import re

NUMCOLS = [
    "Vin (V)",
    "Vout (V)",
    "Iin (A)",
    "Iout (A)",
    "Power (W)",
    "Loss (W)",
    "Efficiency (%)",
    "Temp. rise (°C)",
    "Peak temp. (°C)",
    "24h energy (Wh)",
]

TWIN_RTOL = 1e-9
TWIN_ATOL = 1e-12
EFF_ATOL = 1e-3  # percentage points (ratio of nearly equal numbers)


def _cell(x):
    """Normalise a DataFrame cell to a python value."""
    if x is None:
        return ""
    try:
        import numpy as np

        if isinstance(x, (np.floating,)):
            x = float(x)
        elif isinstance(x, (np.integer,)):
            x = int(x)
        elif isinstance(x, np.bool_):
            x = bool(x)
        elif isinstance(x, np.ndarray):
            x = x.tolist()
    except Exception:
        pass
    if isinstance(x, float) and math.isnan(x):
        return "nan"
    return x


def frame_rows(df):
    cols = list(df.columns)
    rows = []
    for rec in df.itertuples(index=False, name=None):
        rows.append({c: _cell(v) for c, v in zip(cols, rec)})
    return cols, rows


class Table:
    """A parsed solve() table."""

    def __init__(self, df):
        self.cols, self.rows = frame_rows(df)
        self.has_phase = "Phase" in self.cols
        self.has_domain = "Domain" in self.cols
        self.by_rail = "Rail in" in self.cols
        self.phases = []
        self.comp = {}  # phase -> {name: row}
        self.order = {}  # phase -> [names in emission order]
        self.subsys = {}  # phase -> {source name: row}
        self.total = {}  # phase -> row
        self.average = None
        for r in self.rows:
            name = r["Component"]
            ph = r.get("Phase", "") if self.has_phase else ""
            if name == "System average" and r.get("Type", "") == "":
                self.average = r
                continue
            if ph not in self.comp:
                self.phases.append(ph)
                self.comp[ph] = {}
                self.order[ph] = []
                self.subsys[ph] = {}
            if r.get("Type", "") != "":
                self.comp[ph][name] = r
                self.order[ph].append(name)
            elif name == "System total":
                self.total[ph] = r
            elif isinstance(name, str) and name.startswith("Subsystem "):
                self.subsys[ph][name[len("Subsystem "):]] = r

    def parent_ref(self, row):
        return row.get("Rail in") if self.by_rail else row.get("Parent")


def num(x):
    return isinstance(x, (int, float)) and not isinstance(x, bool)


def close(a, b, rtol=TWIN_RTOL, atol=TWIN_ATOL):
    if num(a) and num(b):
        if a == b:
            return True
        if math.isinf(a) or math.isinf(b) or math.isnan(a) or math.isnan(b):
            return False
        return abs(a - b) <= atol + rtol * max(abs(a), abs(b))
    return a == b


def _warnset(w):
    if isinstance(w, str):
        return frozenset(t for t in re.split(r"[,\s]+", w) if t)
    return w


def canon_table(df):
    """Order-free canonical form of a solve()/rail_rep()/batt frame."""
    if df is None:
        return None
    cols, rows = frame_rows(df)
    keyc = [c for c in ("Phase", "Component", "Rail") if c in cols]
    out = {}
    for idx, r in enumerate(rows):
        key = tuple(str(r[c]) for c in keyc) if keyc else (idx,)
        if key in out:
            key = key + (idx,)
        out[key] = r
    return {"cols": sorted(cols), "rows": out}


def diff_canon(a, b, rtol=TWIN_RTOL, atol=TWIN_ATOL, eff_atol=EFF_ATOL, skip_cols=()):
    """First difference between two canonical tables, or None."""
    if a is None or b is None:
        return None if a is b else "one is None"
    if a["cols"] != b["cols"]:
        return "columns differ: %s vs %s" % (a["cols"], b["cols"])
    if set(a["rows"]) != set(b["rows"]):
        return "row keys differ: only-a=%s only-b=%s" % (
            sorted(set(a["rows"]) - set(b["rows"]))[:4],
            sorted(set(b["rows"]) - set(a["rows"]))[:4],
        )
    for k in a["rows"]:
        ra, rb = a["rows"][k], b["rows"][k]
        for c in ra:
            if c in skip_cols:
                continue
            x, y = ra[c], rb[c]
            if c == "Warnings":
                if _warnset(x) != _warnset(y):
                    return "row %s col %s: %r vs %r" % (k, c, x, y)
                continue
            if c == "Efficiency (%)" and num(x) and num(y):
                pa, la = ra.get("Power (W)"), ra.get("Loss (W)")
                extra = 0.0
                if num(pa) and num(la) and pa > 0:
                    extra = 100.0 * (2 * rtol * (abs(pa) + abs(la)) + 2 * atol) / abs(pa)
                if abs(x - y) <= eff_atol + extra + rtol * abs(x):
                    continue
                return "row %s col %s: %r vs %r" % (k, c, x, y)
            if not close(x, y, rtol, atol):
                return "row %s col %s: %r vs %r" % (k, c, x, y)
    return None


def parse_tree(text):
    """Rich tree text -> (root label, {parent: [children]}, roots).  Children
    keep their printed order; keys are paths to stay unambiguous."""
    lines = [l for l in text.split("\n") if l.strip() != ""]
    if not lines:
        return None
    root = lines[0].strip()
    stack = [(-1, root)]
    adj = {}
    tops = []
    for l in lines[1:]:
        m = re.match(r"^((?:[│ ]   )*)(?:├── |└── )(.*)$", l)
        if not m:
            continue
        depth = len(m.group(1)) // 4
        name = m.group(2).rstrip()
        while stack and stack[-1][0] >= depth:
            stack.pop()
        parent = stack[-1][1] if stack else root
        if depth == 0:
            tops.append(name)
        else:
            adj.setdefault(parent, []).append(name)
        stack.append((depth, name))
    return {"root": root, "tops": tops, "adj": adj}


def canon_tree(t):
    if t is None:
        return None
    return {
        "root": t["root"],
        "tops": sorted(t["tops"]),
        "adj": {k: sorted(v) for k, v in t["adj"].items()},
    }


_APPL = {
    "SOURCE": ["io", "po", "pl"],
    "PLOAD": ["vi", "ii", "tr", "tp"],
    "ILOAD": ["vi", "pi", "tr", "tp"],
    "RLOAD": ["vi", "ii", "pi", "tr", "tp"],
    "CONVERTER": ["vi", "vo", "ii", "io", "pi", "po", "pl", "tr", "tp"],
}


def canon_params(df, mask=True):
    """params()/limits() rows by component.  Limit cells that are not
    applicable to the component's kind are blanked (save() does not store
    them, and no property speaks about them)."""
    cols, rows = frame_rows(df)
    if mask:
        for r in rows:
            t = r.get("Type")
            if t == "LOAD":
                t = "PLOAD" if r.get("pwr (W)", "") != "" else ("ILOAD" if r.get("ii (A)", "") != "" else "RLOAD")
                if "pwr (W)" not in r:
                    t = None
            appl = _APPL.get(t)
            if appl is None:
                continue
            for c in cols:
                m = re.match(r"^(vi|vo|vd|ii|io|pi|po|pl|tr|tp) (limit )?\(", c)
                if m and m.group(1) not in appl:
                    r[c] = ""
    return {"cols": cols, "rows": {r["Component"]: r for r in rows}, "n": len(rows)}


def canon_phases(df):
    if df is None:
        return None
    cols, rows = frame_rows(df)
    out = {}
    for r in rows:
        out[(r["Component"], r["Active phase"])] = r
    return {"cols": cols, "rows": out, "n": len(rows)}


def canon_savedoc(text):
    """The save() document with non-semantic order removed (child lists are
    sorted by name; mux 'parents' order is semantic and kept)."""
    doc = json.loads(text)

    def norm_childs(ch):
        out = {}
        for p, lst in ch.items():
            out[p] = sorted(lst, key=lambda c: c["params"]["name"])
        return out

    for k, v in doc.items():
        if k != "system" and isinstance(v, dict) and "childs" in v:
            v["childs"] = norm_childs(v["childs"])
    pc = doc.get("system", {}).get("phase_conf")
    if isinstance(pc, dict):
        for k in pc:
            if pc[k] == [] or pc[k] == {}:
                pc[k] = {}  # an empty list and an empty dict both mean 'no configuration'
    return doc


def tree_text(world, sut, name=""):
    world.console.take()
    sut.tree(name) if name else sut.tree()
    return world.console.take()
