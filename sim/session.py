"""Session executor: drives SUT, Shadow, Fresh and Reloaded twins through a
recorded or generated operation list, with monitors after every operation."""
import copy
import random
import warnings
from collections import Counter

from . import observe as O
from .spec import build, LOADS, TYPE_OF
from .model import RefSystem
from . import checks

def flag(b, form):
    """A boolean argument in another legal spelling."""
    if form == "np":
        import numpy as np

        return np.bool_(b)
    if form == "int":
        return int(b)
    return b


EDIT_OPS = ("new", "add_source", "add_comp", "change_comp", "del_comp", "set_sys_phases", "set_comp_phases")
ANALYSIS_OPS = ("solve", "rail_rep", "params", "limits", "phases", "tree", "save", "make_diag", "make_hdiag", "plot_interp", "batt_life")


class Stop(Exception):
    """A violation was recorded; the session ends."""


class HarnessError(Exception):
    pass


class Session:
    def __init__(self, world, cfg, enabled):
        self.w = world
        self.cfg = cfg
        self.enabled = set(enabled)
        self.sut = None
        self.shadow = None
        self.model = None
        self.pristine = None
        self.other_alarms = []
        self.shared = {}
        self.sut_objs = {}  # component objects handed to the SUT, by name (None after a restart)
        self._pending_obj = None
        self.collapsed = False
        self.violations = []
        self.stats = Counter()
        self.events = []  # (step, op kind, outcome digest)
        self.step = -1
        self.prev_snap = None
        self.last_full = None  # cached full observation of the SUT (state unchanged since)
        self.dirty = True
        self.had_reject = False
        self.had_analysis = False
        self.had_restart = False
        self.gen = None
        # sparse run class: no implicit report calls after accepted edits, so
        # that consecutive edits really happen without an analysis in between
        # (per-step monitoring would otherwise refresh any cached state)
        self.sparse = bool(cfg.get("sparse"))
        self.twin_lost = False  # set after a restart in runs that do not judge C12
        self.tol = checks.Tol()
        self.tol_atol = 0.0  # D20 is fixed: the solver's convergence test is purely relative
        self.outcomes = []
        self.interleave = []
        self.nontrivial = set()
        self.stats.nt = self.nontrivial

    # ------------------------------------------------------------------
    def fail(self, prop, clause, detail, sig=""):
        if not sig and self.collapsed:
            sig = "mux-inputs-collapsed-onto-one-parent"
        self.violations.append({"prop": prop, "clause": clause, "step": self.step, "detail": str(detail)[:600], "sig": sig})
        raise Stop()

    # ------------------------------------------------------------------
    # building arguments afresh for every twin
    def _keep(self, sysobj, obj):
        """The caller keeps the component objects it hands to the SUT."""
        if sysobj is self.sut and self.sut_objs is not None:
            self._pending_obj = obj
        return obj

    def _call_edit(self, sysobj, op, S):
        k = op["op"]
        self._pending_obj = None
        if k == "add_source":
            sysobj.add_source(self._keep(sysobj, build(op["comp"])), group=op["group"], rail=op["rail"])
        elif k == "add_comp":
            sysobj.add_comp(copy.deepcopy(op["parent"]), comp=self._keep(sysobj, build(op["comp"])), group=op["group"], rail=op["rail"])
        elif k == "change_comp":
            sysobj.change_comp(op["name"], comp=self._keep(sysobj, build(op["comp"])), group=op["group"], rail=op["rail"])
        elif k == "del_comp":
            sysobj.del_comp(op["name"], del_childs=flag(op["del_childs"], op.get("flagform")))
        elif k == "set_sys_phases":
            sysobj.set_sys_phases(copy.deepcopy(op["phases"]))
        elif k == "set_comp_phases":
            conf = copy.deepcopy(op["conf"])
            if op.get("share_id"):
                # one dict object per twin, shared by the calls that name the same id
                pool = self.shared.setdefault(id(sysobj), {})
                if op["share_id"] in pool:
                    self.stats["fault_fired:caller_shares_one_dict"] += 1
                conf = pool.setdefault(op["share_id"], conf)
            sysobj.set_comp_phases(op["name"], conf)
        else:
            raise HarnessError("not an edit: " + k)

    def _guard(self, fn, werr=False):
        """Run fn; return ('ok', value) or ('exc', type, message)."""
        try:
            if werr:
                with warnings.catch_warnings():
                    warnings.simplefilter("error")
                    return ("ok", fn())
            return ("ok", fn())
        except Stop:
            raise
        except HarnessError:
            raise
        except Exception as e:  # noqa
            return ("exc", type(e).__name__, str(e)[:200])

    # ------------------------------------------------------------------
    def snapshot(self, sysobj):
        w = self.w
        snap = {}

        def tree():
            return O.canon_tree(O.parse_tree(O.tree_text(w, sysobj)))

        def params():
            return O.canon_params(sysobj.params(limits=True))

        def phases():
            return O.canon_phases(sysobj.phases())

        def save():
            sysobj.save("__snap__.json")
            return O.canon_savedoc(w.disk.files["__snap__.json"])

        for name, fn in (("tree", tree), ("params", params), ("phases", phases), ("save", save)):
            r = self._guard(fn)
            snap[name] = r[1] if r[0] == "ok" else ("EXC",) + r[1:]
        return snap

    @staticmethod
    def snap_diff(a, b):
        for k in ("tree", "params", "phases", "save"):
            if a[k] != b[k]:
                return "%s differs: %s" % (k, _first_diff(a[k], b[k]))
        return None

    def full_obs(self, sysobj, ta=25.0):
        ta = 25.0  # twin comparisons always use the same ambient

        def solve():
            return O.canon_table(sysobj.solve(energy=True, ta=ta))

        def rail():
            return O.canon_table(sysobj.rail_rep(energy=True, ta=ta))

        out = {}
        for name, fn in (("solve", solve), ("rail", rail)):
            r = self._guard(fn)
            out[name] = r[1] if r[0] == "ok" else ("EXC",) + r[1:]
        return out

    @staticmethod
    def full_diff(a, b):
        for k in ("solve", "rail"):
            x, y = a[k], b[k]
            if isinstance(x, tuple) or isinstance(y, tuple):
                # both raise: the exception class must agree; the message may name
                # a different component when several parts are overloaded and the
                # twins number their nodes differently
                if not (isinstance(x, tuple) and isinstance(y, tuple) and x[:2] == y[:2]):
                    return "%s: %r vs %r" % (k, _short(x), _short(y))
                continue
            d = O.diff_canon(x, y)
            if d:
                return "%s: %s" % (k, d)
        return None

    # ------------------------------------------------------------------
    # C14 structure invariants, read from public reports only
    def check_structure(self, snap):
        if "C14" not in self.enabled:
            return
        for k in ("tree", "params", "save"):
            if isinstance(snap[k], tuple):
                # the structure cannot even be read: a registry and the graph
                # disagree (not a well-formed tree)
                self.fail("C14", "structure-readable", "%s() raised %s(%s)" % (k, snap[k][1], snap[k][2]))
        t, p, doc = snap["tree"], snap["params"], snap["save"]
        names = list(p["rows"].keys())
        if p["n"] != len(names):
            self.fail("C14", "names-unique", "params() lists %d rows but %d distinct names" % (p["n"], len(names)))
        typ = {n: p["rows"][n]["Type"] for n in names}
        rails = doc["system"].get("rails", {})
        rl = [r for r in rails.values() if r != ""]
        if len(rl) != len(set(rl)):
            self.fail("C14", "rails-unique", "rails %s" % sorted(rl))
        both = set(rl) & set(names)
        if both:
            self.fail("C14", "rails-disjoint-from-names", "used as rail and as name: %s" % sorted(both))
        for n, r in rails.items():
            if r != "" and typ.get(n) == "LOAD":
                self.fail("C14", "load-has-no-rail", "load %s owns rail %r" % (n, r))
        srcs = sorted(n for n in names if typ[n] == "SOURCE")
        if sorted(t["tops"]) != srcs:
            self.fail("C14", "roots-are-sources", "tree roots %s, sources %s" % (sorted(t["tops"]), srcs))
        npar = Counter()
        for par, kids in t["adj"].items():
            if typ.get(par) == "LOAD":
                self.fail("C14", "load-has-no-child", "load %s has children %s" % (par, kids))
            for c in kids:
                if typ.get(c) == "SOURCE":
                    self.fail("C14", "source-below-parent", "source %s below %s" % (c, par))
                npar[(c, par)] += 1
        pc = Counter()
        for (c, par) in npar:
            pc[c] += 1
        for c, k in pc.items():
            if k > 1 and typ.get(c) != "PMUX":
                self.fail("C14", "only-mux-multi-parent", "%s (%s) has %d parents" % (c, typ.get(c), k))
        for key, ent in doc.items():
            if key != "system" and isinstance(ent, dict) and "parents" in ent:
                ps = ent["parents"]
                if len(ps) != len(set(ps)):
                    self.fail("C14", "mux-parents-distinct", "save() lists the parents of %s as %s" % (key, ps))
                tree_ps = sorted(par for par, kids in t["adj"].items() if key in kids)
                if sorted(ps) != tree_ps:
                    self.fail("C14", "mux-parents-agree", "save() parents of %s %s, tree() shows it under %s" % (key, ps, tree_ps))
        nmux = sum(1 for n in names if typ[n] == "PMUX")
        if nmux > 1:
            self.fail("C14", "at-most-one-mux", "%d PMux components" % nmux)
        seen = set(t["tops"])
        for kids in t["adj"].values():
            seen.update(kids)
        if seen != set(names):
            self.fail("C14", "tree-vs-params-names", "tree %s params %s" % (sorted(seen ^ set(names))[:6], len(names)))

    # ------------------------------------------------------------------
    def build_fresh(self, order_seed=None, objs=None):
        """A System built from scratch from the reference model's structure
        (from fresh component objects, or from the caller's retained ones)."""
        build = (lambda spec_: objs[spec_["name"]]) if objs is not None else globals()["build"]
        m = self.model
        S = self.w.S
        order = list(m.order)
        if order_seed is not None:
            rnd = random.Random(order_seed)
            rnd.shuffle(order)
        placed, seq = set(), []
        remaining = list(order)
        guard = 0
        while remaining:
            guard += 1
            if guard > 10000:
                raise HarnessError("model has a cycle")
            for n in list(remaining):
                if all(p in placed for p in m.parents[n]):
                    seq.append(n)
                    placed.add(n)
                    remaining.remove(n)
                    break
        srcs = [n for n in seq if m.kind(n) == "Source"]
        first = srcs[0]
        fs = S.System(m.sysname, build(m.comps[first]), group=m.groups[first], rail=m.rails[first])
        for n in seq:
            if n == first:
                continue
            if m.kind(n) == "Source":
                fs.add_source(build(m.comps[n]), group=m.groups[n], rail=m.rails[n])
            else:
                ps = m.parents[n]
                parent = list(ps) if (len(ps) > 1) else ps[0]
                fs.add_comp(parent, comp=build(m.comps[n]), group=m.groups[n], rail=m.rails[n])
        if m.sys_phases:
            fs.set_sys_phases(copy.deepcopy(m.sys_phases))
        for n in seq:
            if m.phase_conf[n]:
                fs.set_comp_phases(n, copy.deepcopy(m.phase_conf[n]))
        return fs

    # ------------------------------------------------------------------
    def run(self, ops):
        """Execute a list of ops (or a generator callback yielding ops)."""
        try:
            for op in ops:
                self.step += 1
                self.apply(op)
        except Stop:
            pass
        return self.violations

    # ------------------------------------------------------------------
    def apply(self, op):
        k = op["op"]
        S = self.w.S
        if k == "new":
            if self.sut is not None:
                return
            if op["comp"]["kind"] != "Source":
                return
            first_ = build(op["comp"])
            self.sut_objs[op["comp"]["name"]] = first_
            self.sut = S.System(op["name"], first_, group=op["group"], rail=op["rail"])
            self.shadow = S.System(op["name"], build(op["comp"]), group=op["group"], rail=op["rail"])
            # a third twin that receives the accepted edits and nothing else
            # (no report is ever called on it before the final observation)
            self.pristine = S.System(op["name"], build(op["comp"]), group=op["group"], rail=op["rail"])
            self.model = RefSystem(op["name"], op["comp"], op["group"], op["rail"])
            self.prev_snap = self.snapshot(self.sut)
            self.outcomes.append("ok")
            return
        if self.sut is None:
            self.outcomes.append("skip")
            return
        if k == "bulk":
            self.apply_bulk(op)
        elif k in EDIT_OPS:
            self.apply_edit(op)
        elif k in ANALYSIS_OPS:
            from .analyses import apply_analysis

            apply_analysis(self, op)
        elif k == "restart":
            from .analyses import apply_restart

            apply_restart(self, op)
        elif k == "observe":
            from .analyses import apply_observe

            apply_observe(self, op)
        elif k in ("mux_patterns", "kill_sweep"):
            from .analyses import apply_enumeration

            apply_enumeration(self, op)
        else:
            raise HarnessError("unknown op " + k)

    # ------------------------------------------------------------------
    def apply_bulk(self, op):
        """Many accepted additions in a row, no report in between (scale run
        classes: hundreds of siblings, long chains)."""
        for sub_ in op["ops"]:
            if self._must_reject(sub_):
                continue
            res = self._guard(lambda: self._call_edit(self.sut, sub_, self.w.S))
            if res[0] == "ok" and self._pending_obj is not None and self.sut_objs is not None:
                self.sut_objs[sub_["comp"]["name"]] = self._pending_obj
            if res[0] != "ok":
                self.stats["bulk_edit_rejected:" + res[1]] += 1
                if "C16" in self.enabled or "C14" in self.enabled:
                    self.fail("C16" if "C16" in self.enabled else "C14", "legal-edit-accepted", "%s raised %s(%s)" % (_opsum(sub_), res[1], res[2]))
                break
            r2 = self._guard(lambda: self._call_edit(self.shadow, sub_, self.w.S))
            if self.pristine is not None:
                r3 = self._guard(lambda: self._call_edit(self.pristine, sub_, self.w.S))
                if r3[0] != "ok":
                    self.pristine = None
            self._model_apply(sub_)
            if r2[0] != "ok":
                self._twin_fail("shadow rejected an edit the SUT accepted: %r" % (r2,), sub_)
            self.stats["edit_ok"] += 1
        self.dirty = True
        self.outcomes.append("ok")
        self.interleave.append(("bulk", "ok"))
        self.stats["bulk_ops"] += 1
        self.stats["bulk_components_added"] += len(op["ops"])
        self.nontrivial.add(("scale", op.get("what", "")[:5], len(self.model.order) // 50))
        self.prev_snap = None if self.sparse else self.snapshot(self.sut)
        if self.prev_snap is not None:
            self.check_structure(self.prev_snap)

    # ------------------------------------------------------------------
    def apply_edit(self, op):
        m = self.model
        k = op["op"]
        werr = bool(op.get("werr"))
        # operations whose meaning the documentation leaves open are skipped
        if k == "del_comp" and m.del_ambiguous(op["name"], op["del_childs"]):
            if not op.get("collapse"):
                self.outcomes.append("skip")
                self.stats["skipped_ambiguous"] += 1
                return
            # two inputs collapsing onto one parent: one link remains (D23, fixed)
            self.stats["fault_fired:mux_inputs_collapsed"] += 1
        reason = self._must_reject(op)
        before_full = None
        if "C15" in self.enabled and op.get("probe_full"):
            before_full = self.last_full if (self.last_full is not None and not self.dirty) else self.full_obs(self.sut)
        res = self._guard(lambda: self._call_edit(self.sut, op, self.w.S), werr=werr)
        accepted = res[0] == "ok"
        self.outcomes.append("ok" if accepted else "rej:" + res[1])
        self.interleave.append((k, "ok" if accepted else "rej"))
        self.stats["edit_ok" if accepted else "edit_rej"] += 1
        if werr and not accepted and "Warning" in res[1]:
            self.stats["fault_fired:warnings_as_errors"] += 1
            self.stats["warnings_as_errors"] += 1
        if accepted and self._pending_obj is not None and self.sut_objs is not None:
            self.sut_objs[op["comp"]["name"]] = self._pending_obj
        if accepted:
            self.dirty = True
            if reason:
                self.stats["accepted_though_model_rejects:" + reason] += 1
            # mirror on model and shadow
            r2 = self._guard(lambda: self._call_edit(self.shadow, op, self.w.S))
            r3 = self._guard(lambda: self._call_edit(self.pristine, op, self.w.S))
            if r3[0] != "ok":
                self.pristine = None
            self._model_apply(op)
            if r2[0] != "ok":
                self._twin_fail("shadow rejected an edit the SUT accepted: %r" % (r2,), op)
        else:
            self.had_reject = True
            if not reason:
                self.stats["unexpected_reject"] += 1
                self.stats["unexpected_reject:" + k + ":" + res[1]] += 1
            else:
                self.stats["reject_class:" + reason] += 1
        if self.sparse and accepted:
            self.prev_snap = None  # unknown until the next report
            self.stats["sparse_edits_without_reports"] += 1
            return
        snap = self.snapshot(self.sut)
        if not accepted and self.prev_snap is None:
            self.prev_snap = snap
            self.stats["sparse_reject_without_before"] += 1
        if not accepted:
            d = self.snap_diff(self.prev_snap, snap)
            if d and "C15" in self.enabled:
                self.fail("C15", "rejected-edit-changed-state", "%s %s raised %s(%s) but %s" % (k, _opsum(op), res[1], res[2], d))
            if before_full is not None:
                after_full = self.full_obs(self.sut)
                d = self.full_diff(before_full, after_full)
                if d:
                    self.fail("C15", "rejected-edit-changed-solve", "%s %s raised %s but solve/rail_rep changed: %s" % (k, _opsum(op), res[1], d))
                self.last_full, self.dirty = after_full, False
                self.stats["c15_full_probes"] += 1
            if len(self.model.order) >= 4:
                self.nontrivial.add(("rej", op.get("cls", reason or res[1]), self._target_kind(op)))
        self.check_structure(snap)
        if not self.twin_lost:
            shsnap = self.snapshot(self.shadow)
            d = self.snap_diff(snap, shsnap)
            if d:
                self._twin_fail(d, op, accepted)
        self.prev_snap = snap
        if accepted and "C16" in self.enabled and op.get("fresh_check", True):
            self.check_fresh_snapshot(snap)

    def _target_kind(self, op):
        n = op.get("name")
        if n and self.model and n in self.model.comps:
            return self.model.kind(n)
        c = op.get("comp")
        return c["kind"] if c else ""

    def check_fresh_snapshot(self, snap):
        try:
            fs = self.build_fresh()
        except HarnessError:
            raise
        except Exception as e:  # the model describes a structure sysloss refuses to build
            self.stats["fresh_build_failed:" + type(e).__name__] += 1
            return None
        fsnap = self.snapshot(fs)
        d = self.snap_diff(snap, fsnap)
        if d:
            self.fail("C16", "reports-equal-from-scratch", "after %d ops: %s" % (self.step, d))
        return fs

    def _twin_fail(self, d, op, accepted=None):
        if self.twin_lost:
            return  # the real-code twins were given up earlier (a restart changed the object by design)
        k = op["op"]
        if k in EDIT_OPS and accepted is False:
            cands = ["C15"]
        elif k in ANALYSIS_OPS:
            cands = ["C17"]
        elif k == "restart":
            cands = ["C12"]
        else:
            cands = []
            if self.had_restart:
                cands.append("C12")
            if self.had_reject:
                cands.append("C15")
            cands.append("C17")  # the per-step reports are analyses as well
        prop = next((c for c in cands if c in self.enabled), cands[0])
        if prop in self.enabled:
            self.fail(prop, "sut-differs-from-shadow", "after %s %s: %s" % (k, _opsum(op), d))
        else:
            # a violation of a property this run does not judge: it is counted,
            # the real-code twins are given up (they are no longer comparable)
            # and the session goes on with the model-based monitors, so that the
            # property under check still sees what the system does next
            if not self.twin_lost:
                self.other_alarms.append({"prop": prop, "clause": "sut-differs-from-shadow(not enabled)", "step": self.step, "detail": d[:300]})
            self.twin_lost = True

    def _must_reject(self, op):
        m, k = self.model, op["op"]
        try:
            if k == "add_source":
                return m.must_reject_source(op["comp"], op["rail"])
            if k == "add_comp":
                return m.must_reject_add(op["parent"], op["comp"], op["rail"])
            if k == "change_comp":
                return m.must_reject_change(op["name"], op["comp"], op["rail"])
            if k == "del_comp":
                return m.must_reject_del(op["name"], op["del_childs"])
            if k == "set_sys_phases":
                ph = op["phases"]
                if not isinstance(ph, dict):
                    return "phases not a dict"
                if ph and len(ph) < 2:
                    return "one phase"
                if "N/A" in ph:
                    return "N/A phase"
                return None
            if k == "set_comp_phases":
                if op["name"] not in m.comps:
                    if m.resolve(op["name"]) is not None:
                        return None  # rail-valued target: no opinion (takes effect on the owner if accepted)
                    return "unknown target"
                if not isinstance(op["conf"], (dict, list)):
                    return "bad conf type"
                if m.kind(op["name"]) in ("RLoss", "VLoss"):
                    return "loss component"
                return None
        except Exception as e:  # malformed op after shrinking
            return "malformed:" + type(e).__name__
        return None

    def _model_apply(self, op):
        m, k = self.model, op["op"]
        rails_before = set(r for r in m.rails.values() if r)
        try:
            self._model_apply2(op)
        finally:
            if self.gen is not None:
                dropped = rails_before - set(r for r in m.rails.values() if r)
                self.gen.freed_rails.extend(sorted(dropped)[:2])

    def _model_apply2(self, op):
        m, k = self.model, op["op"]
        try:
            if k == "add_source":
                m.add_source(op["comp"], op["group"], op["rail"])
            elif k == "add_comp":
                m.add_comp(op["parent"], op["comp"], op["group"], op["rail"])
            elif k == "change_comp":
                m.change_comp(op["name"], op["comp"], op["group"], op["rail"])
            elif k == "del_comp":
                victims = [op["name"]] + (m.descendants(op["name"]) if op["del_childs"] else [])
                if self.gen is not None:
                    self.gen.freed.extend(victims[:2])
                m.del_comp(op["name"], op["del_childs"])
            elif k == "set_sys_phases":
                if not hasattr(self, "dropped_phases"):
                    self.dropped_phases = set()
                self.dropped_phases |= set(m.sys_phases) - set(op["phases"])
                m.set_sys_phases(op["phases"])
            elif k == "set_comp_phases":
                m.set_comp_phases(m.resolve(op["name"]) or op["name"], op["conf"])
        except Exception as e:
            # The SUT accepted something the model cannot express: the C14
            # invariants on the SUT's own reports decide; the model is lost.
            self.stats["model_lost:" + type(e).__name__] += 1
            self.model_lost = True


def _opsum(op):
    o = {k: v for k, v in op.items() if k not in ("comp",)}
    if "comp" in op:
        o["comp"] = "%s(%s)" % (op["comp"]["kind"], op["comp"]["name"])
    return str(o)[:200]


def _short(x):
    s = repr(x)
    return s[:200]


def _first_diff(a, b, path=""):
    if type(a) != type(b):
        return "%s: %s vs %s" % (path, _short(a), _short(b))
    if isinstance(a, dict):
        ka, kb = set(a), set(b)
        if ka != kb:
            return "%s: keys only-left=%s only-right=%s" % (path, sorted(map(str, ka - kb))[:5], sorted(map(str, kb - ka))[:5])
        for k in a:
            if a[k] != b[k]:
                return _first_diff(a[k], b[k], path + "/" + str(k))
        return None
    if isinstance(a, (list, tuple)):
        if len(a) != len(b):
            return "%s: len %d vs %d: %s vs %s" % (path, len(a), len(b), _short(a), _short(b))
        for i, (x, y) in enumerate(zip(a, b)):
            if x != y:
                return _first_diff(x, y, path + "/" + str(i))
        return None
    return "%s: %s vs %s" % (path, _short(a), _short(b))
