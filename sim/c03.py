"""C03: sweep monitor checks (termination within maxiter sweeps, the returned
vectors are the last iterate and the convergence predicate holds on them)."""
import math


def _allclose(a, b, rtol, atol):
    for x, y in zip(a, b):
        if math.isnan(x) or math.isnan(y):
            return False
        if x == y:
            continue
        if math.isinf(x) or math.isinf(y):
            return False
        if abs(x - y) > atol + rtol * abs(y):
            return False
    return True


def check_sweeps(sess, op, kw, table):
    sw = sess.w.sweeps
    maxiter = kw.get("maxiter", 10000)
    vtol, itol = kw.get("vtol", 1e-6), kw.get("itol", 1e-6)
    nph = max(1, len(table.phases))
    sess.stats["sweeps"] += sw.fwd
    if sw.fwd > nph * (maxiter + 1):
        sess.fail("C03", "terminates-within-maxiter", "%d sweeps for %d phase(s) with maxiter=%d" % (sw.fwd, nph, maxiter))
    if not sw.hist:
        return
    if nph != 1:
        # all-phase solve: every phase must have met the convergence predicate
        # on its own last pair of iterates, within its own sweep budget
        atol = sess.tol_atol
        for ph in table.phases:
            cnt, last = sw.by_phase.get(ph, (0, None))
            if cnt > maxiter + 1:
                sess.fail("C03", "terminates-within-maxiter", "%d sweeps in phase %r with maxiter=%d" % (cnt, ph, maxiter))
            if last is None:
                continue
            v_in, i_in, v_out, i_out = last
            if not (_allclose(v_in, v_out, vtol, atol) and _allclose(i_in, i_out, itol, atol)):
                worst = max((abs(a - b) / max(abs(b), 1e-300), a, b) for a, b in list(zip(v_in, v_out)) + list(zip(i_in, i_out)) if a != b)
                sess.fail("C03", "converged-at-requested-tolerance", "phase %r was returned after %d sweeps although its last two iterates differ by %.3g relative (%r vs %r); vtol=%g itol=%g" % (ph, cnt, worst[0], worst[1], worst[2], vtol, itol))
        sess.stats["c03_sweep_checks_allphase"] += 1
        return
    v_in, i_in, v_out, i_out = sw.hist[-1]
    ph = table.phases[0]
    rows = table.comp[ph]
    # the returned vectors are the input of the last sweep (the last iterate
    # that was compared), never an older or a half-updated one
    def sub(cells, vec):
        pool = list(vec)
        for c in cells:
            try:
                pool.remove(c)
            except ValueError:
                return c
        return None

    miss = sub([r["Vout (V)"] for r in rows.values()], v_in)
    if miss is not None:
        sess.fail("C03", "returns-last-iterate", "Vout cell %r is not in the voltage vector entering the last sweep" % (miss,))
    miss = sub([r["Iin (A)"] for r in rows.values()], i_in)
    if miss is not None:
        sess.fail("C03", "returns-last-iterate", "Iin cell %r is not in the current vector entering the last sweep" % (miss,))
    atol = sess.tol_atol
    if not (_allclose(v_in, v_out, vtol, atol) and _allclose(i_in, i_out, itol, atol)):
        worst = max((abs(a - b) / max(abs(b), 1e-300), a, b) for a, b in list(zip(v_in, v_out)) + list(zip(i_in, i_out)) if a != b)
        sess.fail("C03", "converged-at-requested-tolerance", "returned after %d sweeps although the last two iterates differ by %.3g relative (%r vs %r); vtol=%g itol=%g" % (sw.fwd, worst[0], worst[1], worst[2], vtol, itol))
    sess.stats["c03_sweep_checks"] += 1
