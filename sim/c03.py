def check_sweeps(sess, op, kw, table):
    pass
