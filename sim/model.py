"""Reference model of a sysloss System: plain dicts, the documented meaning of
each accepted edit.  No numpy / pandas / rustworkx.  The model is driven by the
SUT's accept/reject outcome; it never decides a verdict about acceptance except
through the C14 structure rules (must_reject)."""
import copy
from .spec import LOADS, TYPE_OF


class RefSystem:
    def __init__(self, sysname, src, group="", rail=""):
        self.sysname = sysname
        self.comps = {}  # name -> spec
        self.parents = {}  # name -> [parent names] (mux: priority order)
        self.groups = {}
        self.rails = {}
        self.sys_phases = {}
        self.phase_conf = {}
        self.order = []  # names in order of addition (for canonical rebuild)
        self._add(src, [], group, rail)

    # ------------------------------------------------------------------
    def clone(self):
        return copy.deepcopy(self)

    def _add(self, spec, parents, group, rail):
        n = spec["name"]
        self.comps[n] = copy.deepcopy(spec)
        self.parents[n] = list(parents)
        self.groups[n] = group
        self.rails[n] = "" if spec["kind"] in LOADS else rail
        self.phase_conf[n] = {}
        self.order.append(n)

    # ------------------------------------------------------------------
    # queries
    def names(self):
        return list(self.order)

    def kind(self, n):
        return self.comps[n]["kind"]

    def resolve(self, ref):
        """Component name for a name-or-rail reference, or None."""
        if ref in self.comps:
            return ref
        for n, r in self.rails.items():
            if r != "" and r == ref:
                return n
        return None

    def children(self, n):
        return [c for c in self.order if n in self.parents[c]]

    def descendants(self, n):
        out, todo = [], [n]
        seen = set()
        while todo:
            x = todo.pop()
            for c in self.children(x):
                if c not in seen:
                    seen.add(c)
                    out.append(c)
                    todo.append(c)
        return out

    def ancestors(self, n):
        out, todo, seen = [], [n], set()
        while todo:
            x = todo.pop()
            for p in self.parents[x]:
                if p not in seen:
                    seen.add(p)
                    out.append(p)
                    todo.append(p)
        return out

    def sources(self):
        return [n for n in self.order if self.kind(n) == "Source"]

    def mux(self):
        for n in self.order:
            if self.kind(n) == "PMux":
                return n
        return None

    def depth(self, n):
        d = 0
        while self.parents[n]:
            n = self.parents[n][0]
            d += 1
        return d

    def used_names(self):
        s = set(self.comps)
        s.update(r for r in self.rails.values() if r)
        return s

    def links(self):
        return sorted((p, c) for c in self.order for p in self.parents[c])

    # ------------------------------------------------------------------
    # documented rejection rules (C14): returns a reason or None
    def must_reject_add(self, parent, spec, rail):
        plist = parent if isinstance(parent, list) else [parent]
        if isinstance(parent, list):
            if len(set(parent)) < len(parent):
                return "duplicate parents"
            if spec["kind"] != "PMux":
                return "list parent for non-mux"
        for p in plist:
            if self.resolve(p) is None:
                return "unknown parent"
        res_ = [self.resolve(p) for p in plist]
        if len(set(res_)) < len(res_):
            return "duplicate parents"
        r = self._name_rule(spec["name"], "" if spec["kind"] in LOADS else rail, None)
        if r:
            return r
        if spec["kind"] == "Source":
            return "source under parent"
        for p in plist:
            if self.kind(self.resolve(p)) in LOADS:
                return "child under load"
        if spec["kind"] == "PMux" and self.mux() is not None:
            return "second mux"
        return None

    def _name_rule(self, name, rail, old):
        used = self.used_names()
        if old is not None:
            used.discard(old)
            if self.rails.get(old):
                used.discard(self.rails[old])
        if name in used:
            return "name in use"
        if rail != "":
            if rail == name:
                return "name equals rail"
            if rail in used:
                return "rail in use"
        return None

    def must_reject_source(self, spec, rail):
        if spec["kind"] != "Source":
            return "not a source"
        return self._name_rule(spec["name"], rail, None)

    def must_reject_change(self, name, spec, rail):
        if name not in self.comps:
            return "unknown target"
        eff_rail = "" if spec["kind"] in LOADS else rail
        r = self._name_rule(spec["name"], eff_rail, name)
        if r:
            return r
        if self.kind(name) == "Source" and spec["kind"] != "Source":
            return "source to other"
        if self.kind(name) != "Source" and spec["kind"] == "Source":
            return "source under parent"
        if self.kind(name) == "PMux" and spec["kind"] != "PMux":
            return "mux to other"
        if spec["kind"] == "PMux" and self.kind(name) != "PMux":
            if self.mux() is not None:
                return "second mux"
        if spec["kind"] in LOADS and self.children(name):
            return "load with children"
        return None

    def must_reject_del(self, name, del_childs):
        if name not in self.comps:
            return "unknown target"
        if self.kind(name) == "Source":
            if not del_childs:
                return "source without childs"
            if len(self.sources()) < 2:
                return "last source"
        return None

    # ------------------------------------------------------------------
    # accepted edits
    def add_source(self, spec, group, rail):
        self._add(spec, [], group, rail)

    def add_comp(self, parent, spec, group, rail):
        plist = parent if isinstance(parent, list) else [parent]
        res = [self.resolve(p) for p in plist]
        self._add(spec, [p for i, p in enumerate(res) if p not in res[:i]], group, rail)

    def change_comp(self, name, spec, group, rail):
        new = spec["name"]
        pos = self.order.index(name)
        pars = self.parents.pop(name)
        del self.comps[name], self.groups[name], self.rails[name], self.phase_conf[name]
        self.order[pos] = new
        self.comps[new] = copy.deepcopy(spec)
        self.parents[new] = pars
        self.groups[new] = group
        self.rails[new] = "" if spec["kind"] in LOADS else rail
        self.phase_conf[new] = {}
        if new != name:
            for c in self.order:
                self.parents[c] = [new if p == name else p for p in self.parents[c]]

    def del_comp(self, name, del_childs):
        if del_childs:
            victims = self.descendants(name) + [name]
            for v in victims:
                self._drop(v)
            for c in self.order:
                self.parents[c] = [p for p in self.parents[c] if p not in victims]
        else:
            kids = self.children(name)
            gp = self.parents[name][0]
            for c in kids:
                if gp in self.parents[c]:
                    # the new parent already is an input of this mux: one link
                    # (the existing one, at its own priority) remains
                    self.parents[c] = [p for p in self.parents[c] if p != name]
                else:
                    self.parents[c] = [gp if p == name else p for p in self.parents[c]]
            self._drop(name)

    def _drop(self, n):
        del self.comps[n], self.parents[n], self.groups[n], self.rails[n], self.phase_conf[n]
        self.order.remove(n)

    def del_ambiguous(self, name, del_childs):
        """Deletions whose meaning the documentation leaves open (not generated)."""
        if name not in self.comps or del_childs:
            return False
        if not self.parents[name]:
            return False
        gp = self.parents[name][0]
        for c in self.children(name):
            if self.kind(c) == "PMux" and gp in self.parents[c]:
                return True
        return False

    def set_sys_phases(self, phases):
        self.sys_phases = copy.deepcopy(phases)

    def set_comp_phases(self, name, conf):
        self.phase_conf[name] = copy.deepcopy(conf)

    # ------------------------------------------------------------------
    def phase_list(self):
        return list(self.sys_phases.keys()) if self.sys_phases else [""]

    def phases_coherent(self):
        """False when a component carries a phase configuration while the
        system has no phases (meaning left open by the documentation)."""
        if self.sys_phases:
            return True
        return not any(bool(v) for v in self.phase_conf.values())

    def shape(self):
        """Anonymised shape: nested tuple of kinds, children sorted."""

        def sub(n, seen):
            if n in seen:
                return ("@" + self.kind(n),)
            seen = seen | {n}
            return (self.kind(n), tuple(sorted(sub(c, seen) for c in self.children(n))))

        return tuple(sorted(sub(s, frozenset()) for s in self.sources()))

    def type_of(self, n):
        return TYPE_OF[self.kind(n)]
