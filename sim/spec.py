"""Component specifications: plain-data descriptions from which real sysloss
components are built afresh for every twin (sysloss keeps references to what it
is given, so nothing mutable is ever shared between twins)."""
import copy

KINDS = [
    "Source",
    "PLoad",
    "ILoad",
    "RLoad",
    "RLoss",
    "VLoss",
    "Converter",
    "LinReg",
    "PSwitch",
    "PMux",
    "Rectifier",
]
LOADS = ("PLoad", "ILoad", "RLoad")
TYPE_OF = {
    "Source": "SOURCE",
    "PLoad": "LOAD",
    "ILoad": "LOAD",
    "RLoad": "LOAD",
    "RLoss": "SLOSS",
    "VLoss": "SLOSS",
    "Converter": "CONVERTER",
    "LinReg": "LINREG",
    "PSwitch": "PSWITCH",
    "PMux": "PMUX",
    "Rectifier": "RECTIFIER",
}
# kinds whose phase configuration is a list of active phases
LIST_PHASE_KINDS = ("Source", "Converter", "LinReg", "PSwitch", "PMux")
ALL_LIMS = ["vi", "vo", "vd", "ii", "io", "pi", "po", "pl", "tr", "tp"]
APPLICABLE = {
    "Source": ["io", "po", "pl"],
    "PLoad": ["vi", "ii", "tr", "tp"],
    "ILoad": ["vi", "pi", "tr", "tp"],
    "RLoad": ["vi", "ii", "pi", "tr", "tp"],
    "RLoss": ALL_LIMS,
    "VLoss": ALL_LIMS,
    "Converter": ["vi", "vo", "ii", "io", "pi", "po", "pl", "tr", "tp"],
    "LinReg": ALL_LIMS,
    "PSwitch": ALL_LIMS,
    "PMux": ALL_LIMS,
    "Rectifier": ALL_LIMS,
}
LIMITS_DEFAULT = {
    "vi": [0.0, 1.0e6],
    "vo": [0.0, 1.0e6],
    "vd": [0.0, 1.0e6],
    "ii": [0.0, 1.0e6],
    "io": [0.0, 1.0e6],
    "pi": [0.0, 1.0e6],
    "po": [0.0, 1.0e6],
    "pl": [0.0, 1.0e6],
    "tr": [0.0, 1.0e6],
    "tp": [-1.0e6, 1.0e6],
}
# documented constructor defaults of optional parameters
DEFAULTS = {
    "Source": {"rs": 0.0},
    "PLoad": {"pwrs": 0.0, "rt": 0.0, "loss": False},
    "ILoad": {"iis": 0.0, "rt": 0.0, "loss": False},
    "RLoad": {"rt": 0.0, "loss": False},
    "RLoss": {"rt": 0.0},
    "VLoss": {"rt": 0.0},
    "Converter": {"iq": 0.0, "iis": 0.0, "rt": 0.0},
    "LinReg": {"vdrop": 0.0, "ig": 0.0, "iq": 0.0, "iis": 0.0, "rt": 0.0},
    "PSwitch": {"rs": 0.0, "ig": 0.0, "iis": 0.0, "rt": 0.0},
    "PMux": {"rs": 0.0, "ig": 0.0, "iis": 0.0, "rt": 0.0},
    "Rectifier": {"vdrop": 0.0, "rs": 0.0, "ig": 0.0, "iq": 0.0, "rt": 0.0},
}
MANDATORY = {
    "Source": ["vo"],
    "PLoad": ["pwr"],
    "ILoad": ["ii"],
    "RLoad": ["rs"],
    "RLoss": ["rs"],
    "VLoss": ["vdrop"],
    "Converter": ["vo", "eff"],
    "LinReg": ["vo"],
    "PSwitch": [],
    "PMux": [],
    "Rectifier": ["vdrop"],  # mandatory in the TOML schema only
}
TOML_SECTION = {
    "Source": "source",
    "PLoad": "pload",
    "ILoad": "iload",
    "RLoad": "rload",
    "RLoss": "rloss",
    "VLoss": "vloss",
    "Converter": "converter",
    "LinReg": "linreg",
    "PSwitch": "pswitch",
    "PMux": "pmux",
    "Rectifier": "rectifier",
}


def mk(kind, name, p=None, lim=None):
    return {"kind": kind, "name": name, "p": dict(p or {}), "lim": lim}


CURRENT_WORLD = None  # set by World.__enter__ (the simulated disk for file-built components)


def build(spec):
    """Instantiate a real sysloss component from a spec (fresh objects).  A
    spec flagged `via_file` is written to the simulated disk as a TOML file and
    built with Kind.from_file (the documented equivalent of the constructor)."""
    import sysloss.components as C

    cls = getattr(C, spec["kind"])
    if spec.get("via_file") and not spec.get("form") and CURRENT_WORLD is not None and file_representable(spec):
        from .c13 import write_toml

        p = copy.deepcopy(spec["p"])
        if spec["kind"] == "Rectifier" and "vdrop" not in p:
            p["vdrop"] = 0.0
        if spec["kind"] == "Converter" and not is_table(p["eff"]):
            p["eff"] = float(p["eff"])
        path = "comp_%s.toml" % abs(hash_name(spec["name"]))
        CURRENT_WORLD.file_built = getattr(CURRENT_WORLD, "file_built", 0) + 1
        CURRENT_WORLD.disk.files[path] = "\n".join(write_toml(spec["kind"], p, copy.deepcopy(spec.get("lim")))) + "\n"
        return cls.from_file(spec["name"], fname=path)
    kw = copy.deepcopy(spec["p"])
    if spec.get("lim") is not None:
        kw["limits"] = copy.deepcopy(spec["lim"])
    form = spec.get("form")
    if form:
        # the same numbers in another legal spelling: Python ints where the
        # value is integral, numpy floats (a subclass of float) otherwise
        import numpy as np

        def conv(x):
            if isinstance(x, bool) or not isinstance(x, float):
                return x
            if form == "int":
                return int(x) if abs(x) < 1e15 and x == int(x) else x
            return np.float64(x)

        for k_, v_ in list(kw.items()):
            if k_ == "limits":
                kw[k_] = {a: [conv(b) for b in pair] for a, pair in v_.items()}
            elif isinstance(v_, list):
                kw[k_] = [conv(b) for b in v_]
            else:
                kw[k_] = conv(v_)
    return cls(spec["name"], **kw)


def hash_name(name):
    h = 0
    for ch in name.encode():
        h = (h * 131 + ch) % 1000003
    return h


def file_representable(spec):
    import math

    for lv in (spec.get("lim") or {}).values():
        if any(isinstance(x, float) and not math.isfinite(x) for x in lv):
            return False
    return True


def is_table(x):
    return isinstance(x, dict)


def eff_params(spec):
    """Normalised ('documented meaning') parameters of a spec: magnitudes for
    everything the documentation calls a resistance, current, power, drop or
    thermal resistance; defaults filled in."""
    k = spec["kind"]
    p = dict(DEFAULTS[k])
    p.update(spec["p"])
    if k == "LinReg" and "iq" in p:
        # deprecated spelling of ig: a non-zero iq is the ground current
        iq = p.pop("iq")
        if is_table(iq) or iq != 0.0:
            if is_table(iq) and "iq" in iq:
                iq = dict(iq)
                iq["ig"] = iq.pop("iq")
            p["ig"] = iq
    out = {}
    for key, val in p.items():
        if key in ("vo",):
            out[key] = val
        elif key == "loss":
            out[key] = bool(val)
        elif is_table(val):
            out[key] = val
        elif isinstance(val, list):
            out[key] = [abs(x) for x in val]
        else:
            out[key] = abs(val)
    return out


def param_form(val):
    if is_table(val):
        return "t1" if len(val["vi"]) == 1 else "t2"
    if isinstance(val, list):
        return "list"
    return "c"


def spec_forms(spec):
    return tuple(sorted((k, param_form(v)) for k, v in spec["p"].items() if param_form(v) != "c"))
