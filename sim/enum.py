"""Local complete enumerations inside a sampled session (fault_enumeration):
kill_sweep (C04): every kill position x kill kind of the reached tree;
mux_patterns (C05): all 2^n live/dead patterns of the mux inputs.

The enumerated edits are derived from the current reference model only (no
PRNG), so a recorded session replays them identically."""
import copy
import itertools

from .spec import LIST_PHASE_KINDS, LOADS
from .session import Stop


def _edit(sess, op):
    sess.apply_edit(op)
    return sess.outcomes[-1] == "ok"


def _observe(sess, kw, tag):
    from .analyses import apply_observe

    op = {"op": "observe", "ta": 25.0, "sh": 1, "kw": dict(kw), "roundtrip": False}
    apply_observe(sess, op)
    sess.outcomes.pop()


def _ensure_phases(sess):
    m = sess.model
    if not m.sys_phases:
        _edit(sess, {"op": "set_sys_phases", "phases": {"pa": 10.0, "pb": 1.0}})
    return list(sess.model.sys_phases.keys())


def _restore_comp(sess, name, spec, group, rail, conf):
    _edit(sess, {"op": "change_comp", "name": name, "comp": copy.deepcopy(spec), "group": group, "rail": rail})
    if conf:
        _edit(sess, {"op": "set_comp_phases", "name": name, "conf": copy.deepcopy(conf)})


def _levels_below(m, n):
    best = 0
    todo = [(n, 0)]
    while todo:
        x, d = todo.pop()
        best = max(best, d)
        for c in m.children(x):
            todo.append((c, d + 1))
    return best


def run_enumeration(sess, op):
    if op["op"] == "kill_sweep":
        kill_sweep(sess, op)
    else:
        mux_patterns(sess, op)
    sess.outcomes.append("ok")
    sess.interleave.append((op["op"], "ok"))


def kill_sweep(sess, op):
    m = sess.model
    kw = {"maxiter": 2000}
    names = list(m.order)
    phases = _ensure_phases(sess) if op.get("phases", True) else list(m.sys_phases.keys())
    for n in names:
        m = sess.model
        if n not in m.comps:
            continue
        k = m.kind(n)
        spec, group, rail, conf = copy.deepcopy(m.comps[n]), m.groups[n], m.rails[n], copy.deepcopy(m.phase_conf[n])
        below = m.descendants(n)
        nontriv = _levels_below(m, n) >= 2 and any(m.kind(d) in LOADS for d in below)
        kinds_below = tuple(sorted(set(m.kind(d) for d in below)))
        # ---- kill kind 1: source set to 0 V
        if k == "Source":
            dead = copy.deepcopy(spec)
            dead["p"]["vo"] = 0.0
            if _edit(sess, {"op": "change_comp", "name": n, "comp": dead, "group": group, "rail": rail}):
                sess.stats["kill:source0"] += 1
                sess.stats["fault_fired:kill_source_0V"] += 1
                _observe(sess, kw, "source0")
                if nontriv:
                    sess.nontrivial.add(("kill", "source0", m.depth(n), kinds_below))
                _restore_comp(sess, n, spec, group, rail, conf)
        # ---- kill kind 2: inactive in a phase
        if k in LIST_PHASE_KINDS and phases:
            for ph in phases[:2]:
                others = [p for p in phases if p != ph]
                if _edit(sess, {"op": "set_comp_phases", "name": n, "conf": others}):
                    sess.stats["kill:sleep"] += 1
                    sess.stats["fault_fired:kill_inactive_in_phase"] += 1
                    _observe(sess, dict(kw, phase=ph), "sleep")
                    if (len(names) + len(n)) % 5 == 0:
                        # the same kill seen by an all-phase solve with a small sweep
                        # budget: it raises RuntimeError or every phase is settled
                        _observe(sess, {"maxiter": 1 + (len(n) % 4)}, "sleep-small-maxiter")
                    if nontriv:
                        sess.nontrivial.add(("kill", "sleep:" + k, sess.model.depth(n), kinds_below))
                _edit(sess, {"op": "set_comp_phases", "name": n, "conf": copy.deepcopy(conf) if conf else []})
        # ---- kill kind 3: regulator driven into drop-out down to 0 V
        if k == "LinReg":
            par = m.parents[n][0]
            from .gen import model_vnom

            vin = abs(model_vnom(m, par))
            if vin > 0:
                d = copy.deepcopy(spec)
                sign = 1 if spec["p"]["vo"] >= 0 else -1
                d["p"]["vo"] = sign * round(vin * 3.0 + 1.0, 4)
                d["p"]["vdrop"] = round(vin * 1.5 + 0.1, 4)
                if _edit(sess, {"op": "change_comp", "name": n, "comp": d, "group": group, "rail": rail}):
                    sess.stats["kill:dropout"] += 1
                    sess.stats["fault_fired:kill_dropout_to_0V"] += 1
                    _observe(sess, kw, "dropout")
                    if nontriv:
                        sess.nontrivial.add(("kill", "dropout", m.depth(n), kinds_below))
                    _restore_comp(sess, n, spec, group, rail, conf)


def mux_patterns(sess, op):
    """Visit all 2^n live/dead patterns of the mux inputs."""
    m = sess.model
    mux = m.mux()
    if mux is None:
        return
    inputs = list(m.parents[mux])
    n = len(inputs)
    phases = _ensure_phases(sess)
    ph = phases[0]
    others = [p for p in phases if p != ph]
    kw = {"maxiter": 2000, "phase": ph}
    srcs_of = {i: [a for a in ([i] + sess.model.ancestors(i)) if sess.model.kind(a) == "Source"] for i in inputs}
    if len(set(tuple(v) for v in srcs_of.values())) > 1:
        sess.stats["mux_inputs_diff_sources"] += 1
    if isinstance(sess.model.comps[mux]["p"].get("rs"), list):
        sess.stats["mux_list_rs"] += 1
    for pattern in itertools.product([True, False], repeat=n):
        m = sess.model
        undo = []
        feasible = True
        for inp, live in zip(inputs, pattern):
            if live:
                continue
            k = m.kind(inp)
            spec, group, rail, conf = copy.deepcopy(m.comps[inp]), m.groups[inp], m.rails[inp], copy.deepcopy(m.phase_conf[inp])
            if k == "LinReg" and (inputs.index(inp) + sum(pattern)) % 2 == 1:
                # dead by drop-out: powered and enabled, but its output is 0 V
                from .gen import model_vnom

                vin = abs(model_vnom(m, m.parents[inp][0]))
                if vin > 0:
                    d = copy.deepcopy(spec)
                    sign = 1 if spec["p"]["vo"] >= 0 else -1
                    d["p"]["vo"] = sign * round(vin * 3.0 + 1.0, 4)
                    d["p"]["vdrop"] = round(vin * 1.5 + 0.1, 4)
                    if _edit(sess, {"op": "change_comp", "name": inp, "comp": d, "group": group, "rail": rail}):
                        undo.append(("comp", inp, spec, group, rail, conf))
                        sess.stats["fault_fired:mux_input_dropout"] += 1
                        continue
            if k in LIST_PHASE_KINDS and k != "Source":
                if _edit(sess, {"op": "set_comp_phases", "name": inp, "conf": others}):
                    undo.append(("conf", inp, conf))
                    sess.stats["fault_fired:mux_input_inactive"] += 1
                    continue
            if k == "Source":
                # alternate between the two ways a source can be dead
                if (inputs.index(inp) + sum(pattern)) % 2 == 0:
                    dead = copy.deepcopy(spec)
                    dead["p"]["vo"] = 0.0
                    if _edit(sess, {"op": "change_comp", "name": inp, "comp": dead, "group": group, "rail": rail}):
                        undo.append(("comp", inp, spec, group, rail, conf))
                        sess.stats["fault_fired:mux_input_source_0V"] += 1
                        continue
                else:
                    if _edit(sess, {"op": "set_comp_phases", "name": inp, "conf": others}):
                        undo.append(("conf", inp, conf))
                        sess.stats["fault_fired:mux_input_source_inactive"] += 1
                        continue
            # a passive input (loss element / rectifier): kill what feeds it,
            # provided that does not also kill an input that must stay live
            up = None
            for a in m.ancestors(inp):
                if m.kind(a) in LIST_PHASE_KINDS:
                    reach = set(m.descendants(a)) | {a}
                    if not any(l and (i2 in reach) for i2, l in zip(inputs, pattern)):
                        up = a
                        break
            if up is None:
                feasible = False
                break
            c2 = copy.deepcopy(m.phase_conf[up])
            if _edit(sess, {"op": "set_comp_phases", "name": up, "conf": others}):
                undo.append(("conf", up, c2))
                sess.stats["fault_fired:mux_input_upstream_inactive"] += 1
            else:
                feasible = False
                break
        if feasible:
            sess.stats["mux_patterns_visited"] += 1
            _observe(sess, kw, "pattern")
            # the same pattern seen by an all-phase solve: the kills act in
            # phase `ph` only, so the selected input changes between phases
            _observe(sess, {"maxiter": 2000}, "pattern-all-phases")
            sel = next((i for i, l in enumerate(pattern) if l), -1)
            if sel >= 1:
                sess.stats["mux_selected>=1"] += 1
            if sel < 0:
                sess.stats["mux_all_dead"] += 1
            kinds = tuple(sess.model.kind(i) for i in inputs)
            if sel >= 1 or len(set(tuple(v) for v in srcs_of.values())) > 1 or isinstance(sess.model.comps[mux]["p"].get("rs"), list):
                sess.nontrivial.add(("muxpat", n, pattern, sel, kinds))
        else:
            sess.stats["mux_patterns_infeasible"] += 1
        for u in reversed(undo):
            if u[0] == "conf":
                _edit(sess, {"op": "set_comp_phases", "name": u[1], "conf": copy.deepcopy(u[2]) if u[2] else []})
            else:
                _restore_comp(sess, u[1], u[2], u[3], u[4], u[5])
