def run_enumeration(sess, op):
    pass
